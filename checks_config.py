# Per-property configuration of the driver: which harness package and test
# function decide the property, how many generated cases per shard, how many
# shard processes, the wall-clock budget (hitting it = inconclusive, exit 2).

HOOK_COMMITS = ["eaf80dc8"]
NOT_APPLICABLE = {}


def P(pkg, test, technique, level_text, level_note, level="exploration", q=None, t=None, race=False):
    return {"pkg": pkg, "test": test, "level": level, "race": race, "quick": q, "thorough": t,
            "technique": technique, "level_text": level_text, "level_note": level_note}

CHECKS = {
    "C08": P("pure", "TestC08",
             "rapid pair generation with structure-aware mutation + exhaustive small scope; oracle: tuple equality <=> datum identity",
             "Pairs of tuples over an adversarial alphabet (separator, escape, empty, non-UTF-8) are pushed through create/find/expire/remove/enumerate on a real metric and compared with string-wise tuple equality; every tuple of arity <=2 over {a,-,\\}^<=3 is enumerated exhaustively.",
             "Trusted: Go string equality as the reference. Sampling beyond the exhaustive scope.",
             q={"checks": 20000, "shards": 1, "timeout": 300},
             t={"checks": 200000, "shards": 16, "timeout": 1500}),
    "C09": P("pure", "TestC09",
             "rapid generated operation histories vs insertion-ordered map model, invariant after every step",
             "Generated histories of every metric operation (incl. wrong-length tuples, enumeration through the channel, JSON) are applied to a real metric and to an insertion-ordered map; the full state is compared after every step for every kind x type x arity.",
             "Trusted: the 30-line map model. Bounded history length (40) and a 5-tuple universe; sampling.",
             q={"checks": 3000, "shards": 1, "timeout": 300},
             t={"checks": 25000, "shards": 16, "timeout": 1500}),
    "C10": P("pure", "TestC10",
             "rapid generated stores + one Gc(); two-sided validity predicate (brute force over tie-breaks)",
             "Generated stores (limits, clustered timestamps, expiry marks, late updates) get one GC pass; a predicate accepts exactly the outcomes the statement allows (remove n-N oldest, any tie-break; then the expired; nothing else changes) and rejects everything else.",
             "Trusted: the predicate; GC instant bracketed by wall-clock reads, ages kept >= 10 s from expiry boundaries. API-built stores (compiled limit/del-after declarations are covered by the language checks).",
             q={"checks": 4000, "shards": 1, "timeout": 300},
             t={"checks": 30000, "shards": 16, "timeout": 1500}),
    "C15": P("pure", "TestC15",
             "exhaustive small-scope enumeration + rapid random streams/chunkings vs reference splitter",
             "Every byte stream up to length 5 (quick) / 7 (thorough) over {LF, CR, 'a', 0xe4} under every composition into reads and buffer sizes 1,2,3,64 is compared with a reference splitter; plus random streams to 70 KB with random chunking incl. zero-length reads. Exploration with an exhaustive small scope.",
             "Trusted: the 15-line reference splitter and the scripted io.Reader. Sampling beyond the exhaustive scope.",
             q={"checks": 3000, "shards": 1, "timeout": 300},
             t={"checks": 30000, "shards": 16, "timeout": 1500}),
    "C21": P("pure", "TestC21",
             "rapid generated declarations + boundary-biased observation sequences vs bucket model; compiled declaration, datum API, program lines and Prometheus export",
             "Generated histogram declarations are compiled, observations at/around every boundary (plus NaN, Inf, negatives) are fed through the API and through program lines, and per-bucket counts, count, sum, the set of upper bounds and the parsed Prometheus exposition are compared with a 10-line bucket model.",
             "Trusted: the bucket model, expfmt.TextParser. Sampling.",
             q={"checks": 3000, "shards": 1, "timeout": 300},
             t={"checks": 30000, "shards": 16, "timeout": 1500}),
    "C13": P("pure", "TestC13",
             "rapid generated stores x exporter options; server-style scrape parsed by the Prometheus text parser vs reference model of expected samples (both directions)",
             "Generated stores are scraped the way the server does it and the parsed exposition is compared sample by sample with a model derived from the statement: one sample per representable label set, name/labels/value/type/timestamp, histogram buckets; nothing else; unrepresentable label sets absent while everything else is present.",
             "Trusted: expfmt.TextParser, the harness's representability predicate (legacy Prometheus name rules). Sampling.",
             q={"checks": 3000, "shards": 1, "timeout": 300},
             t={"checks": 30000, "shards": 16, "timeout": 1500}),
    "C12": P("pure", "TestC12",
             "fault enumeration: rapid generated store shapes x complete enumeration of fault positions per exporter path; oracle = locks free, no helper goroutine left, follow-up processing completes",
             "For each generated store shape every failure position of every exporter path is injected in turn (unrepresentable metric/label at each position, failing write k for every k, cancellation before/at each write, NaN for JSON) and after each attempt every metric must be write-lockable, no EmitLabelSets goroutine may remain and follow-up GetDatum/exports must complete.",
             "Trusted: TryLock polling, goroutine-dump counting, the build-tagged push hook. Store shapes are sampled; positions per shape are complete. The real-socket push path is not driven here.",
             level="fault_enumeration",
             q={"checks": 40, "shards": 1, "timeout": 600},
             t={"checks": 300, "shards": 16, "timeout": 2400}),
    "C22": P("pure", "TestC22",
             "rapid generated stores with distinct per-label-set values x prefixes/hostname; multiset comparison of every format's records with an independent formatter (differential)",
             "For each generated store the JSON, varz, graphite (HTTP and push), statsd and collectd outputs are captured (push formats record by record through the hook) and compared as multisets with records produced by independent formatters in the harness: each label set exactly once, with its own value and timestamp; JSON decoded generically and compared field by field.",
             "Trusted: the harness formatters (written from the wire formats), encoding/json for decoding. Label values containing a format's separators are not checked against that format. Sampling.",
             q={"checks": 2500, "shards": 1, "timeout": 300},
             t={"checks": 20000, "shards": 16, "timeout": 1500}),
    "C01": P("lang", "TestC01",
             "rapid typed-grammar program generation + pattern-derived lines; differential against an independent reference interpreter after every line",
             "Programs drawn from a typed grammar covering the constructs the statement lists are compiled with the shipped configuration and run line by line; after every line the full metric state (hidden metrics included) and the cumulative runtime-error count must equal those of a tree-walking reference interpreter written from docs/Language.md. Every generated program must be accepted.",
             "Trusted: the reference interpreter R (appendix A of DESIGN.md) and G's static typing; constructs the reference is silent on are not generated (listed in DESIGN.md 3.1). Sampling.",
             q={"checks": 3000, "shards": 1, "timeout": 400},
             t={"checks": 40000, "shards": 16, "timeout": 2400}),
}
