// Package hx holds helpers shared by the checks: compiling and running mtail
// programs in-process, scraping a store the way the server does, canonical
// dumps of a metric store.
package hx

import (
	"bytes"
	"context"
	"fmt"
	"math"
	"sort"
	"strings"
	"time"

	"github.com/google/mtail/internal/exporter"
	"github.com/google/mtail/internal/logline"
	"github.com/google/mtail/internal/metrics"
	"github.com/google/mtail/internal/metrics/datum"
	"github.com/google/mtail/internal/runtime/code"
	"github.com/google/mtail/internal/runtime/compiler"
	"github.com/google/mtail/internal/runtime/vm"
	"github.com/google/mtail/verif/vstat"
	"github.com/prometheus/client_golang/prometheus"
	dto "github.com/prometheus/client_model/go"
	"github.com/prometheus/common/expfmt"
)

// Compile compiles source under the given program name.
func Compile(name, src string, opts ...compiler.Option) (*code.Object, error) {
	c, err := compiler.New(opts...)
	if err != nil {
		return nil, err
	}
	return c.Compile(name, strings.NewReader(src))
}

// NewVM builds a VM for obj (UTC unless loc given).
func NewVM(name string, obj *code.Object, useCurrentYear bool, loc *time.Location) *vm.VM {
	v := vm.New(name, obj, useCurrentYear, loc, false, false)
	return v
}

// Line makes a log line.
func Line(file, text string) *logline.LogLine {
	return logline.New(context.Background(), file, text)
}

// Run has the VM process one line. A VM that does not come back within half a
// minute (lines take microseconds) is reported through vstat.Hang; a panic
// that escapes the VM is passed on to the caller.
func Run(v *vm.VM, file, text string) {
	type outcome struct{ r any }
	done := make(chan outcome, 1)
	go func() {
		defer func() { done <- outcome{recover()} }()
		v.ProcessLogLine(context.Background(), Line(file, text))
	}()
	select {
	case o := <-done:
		if o.r != nil {
			panic(o.r)
		}
	case <-time.After(30 * time.Second):
		t := text
		if len(t) > 200 {
			t = t[:200] + "..."
		}
		panic(vstat.Hang{Msg: fmt.Sprintf("the VM did not return from line %q within 30 s", t)})
	}
}

// RuntimeErrors returns the value of prog_runtime_errors_total[name].
func RuntimeErrors(name string) int64 {
	v := vm.ProgRuntimeErrors.Get(name)
	if v == nil {
		return 0
	}
	var n int64
	fmt.Sscan(v.String(), &n)
	return n
}

// Scraper scrapes a store the way mtail's server does: the exporter is
// registered while the store is (possibly) empty, metrics arrive later.
type Scraper struct {
	Reg    *prometheus.Registry
	Exp    *exporter.Exporter
	cancel context.CancelFunc
}

// NewScraper registers an exporter for store in a fresh registry.
func NewScraper(store *metrics.Store, opts ...exporter.Option) (*Scraper, error) {
	ctx, cancel := context.WithCancel(context.Background())
	opts = append([]exporter.Option{exporter.Hostname("verifhost")}, opts...)
	e, err := exporter.New(ctx, store, opts...)
	if err != nil {
		cancel()
		return nil, err
	}
	reg := prometheus.NewRegistry()
	if err := reg.Register(e); err != nil {
		cancel()
		return nil, err
	}
	return &Scraper{Reg: reg, Exp: e, cancel: cancel}, nil
}

// Close stops the exporter.
func (s *Scraper) Close() {
	s.cancel()
	s.Exp.Stop()
}

// Gather gathers, encodes to the text format and parses the text back with the
// Prometheus text parser. gatherErr is the error of Gather (partial results
// are still encoded, as promhttp does with ContinueOnError off it would fail:
// callers decide).
func (s *Scraper) Gather() (fams map[string]*dto.MetricFamily, text string, gatherErr error, parseErr error) {
	mfs, gerr := s.Reg.Gather()
	var buf bytes.Buffer
	enc := expfmt.NewEncoder(&buf, expfmt.NewFormat(expfmt.TypeTextPlain))
	for _, mf := range mfs {
		if err := enc.Encode(mf); err != nil {
			return nil, buf.String(), gerr, err
		}
	}
	var p expfmt.TextParser
	fams, perr := p.TextToMetricFamilies(bytes.NewReader(buf.Bytes()))
	return fams, buf.String(), gerr, perr
}

// DatumString renders a datum's value canonically (type-tagged).
func DatumString(d datum.Datum) string {
	switch v := d.(type) {
	case *datum.Int:
		return fmt.Sprintf("i:%d", v.Get())
	case *datum.Float:
		f := v.Get()
		if math.IsNaN(f) {
			return "f:NaN"
		}
		return fmt.Sprintf("f:%x", math.Float64bits(f))
	case *datum.String:
		return fmt.Sprintf("s:%q", v.Get())
	case *datum.Buckets:
		var parts []string
		for r, c := range v.GetBuckets() {
			parts = append(parts, fmt.Sprintf("%v=%d", r.Max, c))
		}
		sort.Strings(parts)
		return fmt.Sprintf("b:%d/%x/%s", v.GetCount(), math.Float64bits(v.GetSum()), strings.Join(parts, ","))
	}
	return fmt.Sprintf("?:%T", d)
}

// DumpOpts selects what a canonical dump contains.
type DumpOpts struct {
	Times  bool // include datum timestamps
	Expiry bool // include expiry marks
	Order  bool // keep label-set order (otherwise sorted)
	Source bool // include the declaration position
}

// DumpMetric renders one metric canonically.
func DumpMetric(m *metrics.Metric, o DumpOpts) string {
	m.RLock()
	defer m.RUnlock()
	var sb strings.Builder
	fmt.Fprintf(&sb, "%s/%s kind=%v type=%v hidden=%v keys=%q limit=%d", m.Program, m.Name, m.Kind, m.Type, m.Hidden, m.Keys, m.Limit)
	if o.Source {
		fmt.Fprintf(&sb, " source=%s", m.Source)
	}
	var rows []string
	for _, lv := range m.LabelValues {
		r := fmt.Sprintf("  %q = %s", lv.Labels, DatumString(lv.Value))
		if o.Times {
			r += fmt.Sprintf(" @%d", lv.Value.TimeUTC().UnixNano())
		}
		if o.Expiry {
			r += fmt.Sprintf(" exp=%d", int64(lv.Expiry))
		}
		rows = append(rows, r)
	}
	if !o.Order {
		sort.Strings(rows)
	}
	for _, r := range rows {
		sb.WriteString("\n" + r)
	}
	return sb.String()
}

// DumpStore renders all metrics of a store (optionally only one program's),
// sorted by program and name.
func DumpStore(s *metrics.Store, prog string, o DumpOpts) string {
	var ms []string
	_ = s.Range(func(m *metrics.Metric) error {
		if prog == "" || m.Program == prog {
			ms = append(ms, DumpMetric(m, o))
		}
		return nil
	})
	sort.Strings(ms)
	return strings.Join(ms, "\n")
}
