package gen

import (
	"fmt"
	"strconv"
	"strings"
)

// Operator levels of parser.y, loosest to tightest (all left-associative).
var opLevel = map[string]int{
	"||": 1, "&&": 1,
	"&": 2, "|": 2, "^": 2,
	"<": 3, "<=": 3, ">": 3, ">=": 3, "==": 3, "!=": 3,
	"<<": 4, ">>": 4,
	"+": 5, "-": 5,
	"*": 6, "/": 6, "%": 6, "**": 6,
}

const (
	lvlMatch   = 1 // a match expression can only stand where a logical_expr operand can
	lvlPrimary = 9
)

func exprLevel(e *Expr) int {
	switch e.Op {
	case "bin":
		return opLevel[e.Name]
	case "match":
		return lvlMatch
	case "unary":
		return 7
	}
	return lvlPrimary
}

// FloatLit prints a float literal the lexer reads back as the same FLOATLITERAL.
func FloatLit(f float64) string {
	s := strconv.FormatFloat(f, 'f', -1, 64)
	if !strings.ContainsAny(s, ".") {
		s += ".0"
	}
	return s
}

// RegexText returns the regular expression of a pattern.
func (p *Pattern) RegexText(consts map[string]*Const) string {
	var sb strings.Builder
	if p.Anchor {
		sb.WriteString("^")
	}
	for _, t := range p.Toks {
		sb.WriteString(tokRegex(t, consts))
	}
	if p.End {
		sb.WriteString("$")
	}
	return sb.String()
}

func tokRegex(t PatTok, consts map[string]*Const) string {
	grp := func(inner string) string {
		if t.Name != "" {
			return "(?P<" + t.Name + ">" + inner + ")"
		}
		return "(" + inner + ")"
	}
	switch t.Kind {
	case "lit":
		return t.Lit
	case "int":
		return grp(`\d+`)
	case "sint":
		return grp(`-?\d+`)
	case "float":
		return grp(`\d+\.\d+`)
	case "word":
		return grp(`\w+`)
	case "nonspace":
		return grp(`\S+`)
	case "abc":
		return grp(`[a-c]+`)
	case "ts":
		return grp(`\d+T\d+:\d+`)
	case "const":
		if c := consts[t.Lit]; c != nil {
			return c.Re
		}
	}
	return ""
}

// Source prints the pattern as mtail source: /re/ or /a/ + NAME + /b/.
func (p *Pattern) Source() string {
	var parts []string
	var cur strings.Builder
	flush := func() {
		if cur.Len() > 0 {
			parts = append(parts, "/"+cur.String()+"/")
			cur.Reset()
		}
	}
	split := map[int]bool{}
	for _, i := range p.Split {
		split[i] = true
	}
	if p.Anchor {
		cur.WriteString("^")
	}
	for i, t := range p.Toks {
		if t.Kind == "const" {
			flush()
			parts = append(parts, t.Lit)
			continue
		}
		if split[i] {
			flush()
		}
		cur.WriteString(tokRegex(t, nil))
	}
	if p.End {
		cur.WriteString("$")
	}
	flush()
	if len(parts) == 0 {
		return "//"
	}
	return strings.Join(parts, " + ")
}

// PrintExpr prints e so that it can stand where an operand of level min is expected.
func PrintExpr(e *Expr, min int) string {
	s := printExpr(e)
	if exprLevel(e) < min {
		return "(" + s + ")"
	}
	return s
}

func printExpr(e *Expr) string {
	switch e.Op {
	case "lit":
		switch e.Ty {
		case TInt:
			return strconv.FormatInt(e.I, 10)
		case TFloat:
			return FloatLit(e.F)
		case TString:
			return "\"" + strings.ReplaceAll(e.S, "\"", "\\\"") + "\""
		}
	case "cap":
		if e.ByNum {
			return "$" + strconv.Itoa(e.Num)
		}
		return "$" + e.Name
	case "mread":
		s := e.Name
		for _, k := range e.Args {
			s += "[" + PrintExpr(k, 1) + "]"
		}
		return s + e.Post
	case "bin":
		l := opLevel[e.Name]
		left := PrintExpr(e.Args[0], l)
		right := PrintExpr(e.Args[1], l+1)
		if l == 1 && e.Args[1].Op == "match" {
			right = printExpr(e.Args[1])
		}
		if l == 1 && e.Args[0].Op == "match" {
			left = printExpr(e.Args[0])
		}
		return left + " " + e.Name + " " + right
	case "call":
		var as []string
		for _, a := range e.Args {
			if a.Op == "patlit" {
				as = append(as, a.PatV.Source())
			} else {
				as = append(as, PrintExpr(a, 1))
			}
		}
		return e.Name + "(" + strings.Join(as, ", ") + ")"
	case "match":
		op := "=~"
		if e.Neg {
			op = "!~"
		}
		return PrintExpr(e.Args[0], lvlPrimary) + " " + op + " " + e.PatV.Source()
	case "paren":
		return "(" + printExpr(e.Args[0]) + ")"
	case "unary":
		return e.Name + PrintExpr(e.Args[0], lvlPrimary)
	}
	return fmt.Sprintf("<?%s>", e.Op)
}

func lvalue(metric string, keys []*Expr) string {
	s := metric
	for _, k := range keys {
		s += "[" + PrintExpr(k, 1) + "]"
	}
	return s
}

func printStmts(sb *strings.Builder, ss []*Stmt, ind string) {
	for _, s := range ss {
		printStmt(sb, s, ind)
	}
}

func condText(s *Stmt) string {
	switch {
	case s.Pat != nil && s.E != nil:
		return s.Pat.Source() + " " + s.LogOp + " " + PrintExpr(s.E, 1)
	case s.Pat != nil:
		return s.Pat.Source()
	default:
		return PrintExpr(s.E, 1)
	}
}

func printStmt(sb *strings.Builder, s *Stmt, ind string) {
	switch s.Op {
	case "cond":
		sb.WriteString(ind + condText(s) + " {\n")
		printStmts(sb, s.Then, ind+"  ")
		if s.HasEls {
			sb.WriteString(ind + "} else {\n")
			printStmts(sb, s.Else, ind+"  ")
		}
		sb.WriteString(ind + "}\n")
	case "otherwise":
		sb.WriteString(ind + "otherwise {\n")
		printStmts(sb, s.Then, ind+"  ")
		sb.WriteString(ind + "}\n")
	case "incr":
		sb.WriteString(ind + lvalue(s.Metric, s.Keys) + "++\n")
	case "dec":
		sb.WriteString(ind + lvalue(s.Metric, s.Keys) + "--\n")
	case "addassign":
		sb.WriteString(ind + lvalue(s.Metric, s.Keys) + " += " + PrintExpr(s.E, 1) + "\n")
	case "assign":
		sb.WriteString(ind + lvalue(s.Metric, s.Keys) + " = " + PrintExpr(s.E, 1) + "\n")
	case "del":
		sb.WriteString(ind + "del " + lvalue(s.Metric, s.Keys))
		if s.After != "" {
			sb.WriteString(" after " + s.After)
		}
		sb.WriteString("\n")
	case "stop":
		sb.WriteString(ind + "stop\n")
	case "next":
		sb.WriteString(ind + "next\n")
	case "deco":
		sb.WriteString(ind + "@" + s.Deco + " {\n")
		printStmts(sb, s.Then, ind+"  ")
		sb.WriteString(ind + "}\n")
	case "exprstmt":
		sb.WriteString(ind + PrintExpr(s.E, 1) + "\n")
	}
}

// DeclSource prints one declaration.
func (m *Metric) DeclSource() string {
	var sb strings.Builder
	if m.Hidden {
		sb.WriteString("hidden ")
	}
	sb.WriteString(m.Kind + " " + m.Name)
	if len(m.Keys) > 0 {
		var ks []string
		for _, k := range m.Keys {
			if isIdent(k) {
				ks = append(ks, k)
			} else {
				ks = append(ks, "\""+k+"\"")
			}
		}
		sb.WriteString(" by " + strings.Join(ks, ", "))
	}
	if m.As != "" {
		sb.WriteString(" as \"" + strings.ReplaceAll(m.As, "\"", "\\\"") + "\"")
	}
	if m.Limit > 0 {
		sb.WriteString(" limit " + strconv.Itoa(m.Limit))
	}
	if len(m.Buckets) > 0 {
		var bs []string
		for _, b := range m.Buckets {
			bs = append(bs, strconv.FormatFloat(b, 'f', -1, 64))
		}
		sb.WriteString(" buckets " + strings.Join(bs, ", "))
	}
	return sb.String()
}

// Source prints the whole program.
func (p *Program) Source() string {
	var sb strings.Builder
	for _, m := range p.Metrics {
		sb.WriteString(m.DeclSource() + "\n")
	}
	for _, c := range p.Consts {
		sb.WriteString("const " + c.Name + " /" + c.Re + "/\n")
	}
	for _, d := range p.Decos {
		sb.WriteString("def " + d.Name + " {\n")
		printStmts(&sb, d.Body, "  ")
		sb.WriteString("}\n")
	}
	printStmts(&sb, p.Stmts, "")
	return sb.String()
}

// ConstMap indexes the const fragments.
func (p *Program) ConstMap() map[string]*Const {
	m := map[string]*Const{}
	for _, c := range p.Consts {
		m[c.Name] = c
	}
	return m
}

func isIdent(s string) bool {
	if s == "" {
		return false
	}
	for i, r := range s {
		// mtail identifiers start with a letter
		if !(r >= 'a' && r <= 'z' || r >= 'A' && r <= 'Z' || (i > 0 && (r == '_' || r >= '0' && r <= '9'))) {
			return false
		}
	}
	return true
}
