package gen

import (
	"fmt"
	"math"
	"regexp"
	"sort"
	"strconv"
	"strings"
	"time"
)

// Value is a run-time value of R.
type Value struct {
	Ty Ty
	I  int64
	F  float64
	S  string
	B  bool
}

// Datum is the state of one label tuple of a metric in R.
type Datum struct {
	Labels []string
	V      Value
	Expiry time.Duration
}

// MetricState is the state of one metric in R.
type MetricState struct {
	Decl *Metric
	Data map[string]*Datum
}

// Interp is the reference interpreter.
type Interp struct {
	Prog    *Program
	consts  map[string]*Const
	decos   map[string]*DecoDef
	res     map[int]*regexp.Regexp
	Metrics map[string]*MetricState // by declared name
	Errors  int                     // runtime errors so far

	// per line
	file   string
	line   string
	caps   map[int][]string
	steps  int
	nextSt [][]*Stmt // decorated bodies for `next`
}

type rtError struct{ msg string }
type stopLine struct{}
type outside struct{ why string }

const maxExact = int64(1) << 53

// NewInterp prepares R for a program.
func NewInterp(p *Program) *Interp {
	in := &Interp{Prog: p, consts: p.ConstMap(), decos: map[string]*DecoDef{}, res: map[int]*regexp.Regexp{}, Metrics: map[string]*MetricState{}}
	for _, d := range p.Decos {
		in.decos[d.Name] = d
	}
	for _, m := range p.Metrics {
		ms := &MetricState{Decl: m, Data: map[string]*Datum{}}
		// convention: a scalar counter exists with value 0 from load
		if len(m.Keys) == 0 && m.Kind == "counter" {
			ms.Data[""] = &Datum{V: Value{Ty: m.Ty}}
		}
		in.Metrics[m.Name] = ms
	}
	return in
}

func (in *Interp) regex(p *Pattern) *regexp.Regexp {
	if r, ok := in.res[p.ID]; ok {
		return r
	}
	r := regexp.MustCompile(p.RegexText(in.consts))
	in.res[p.ID] = r
	return r
}

// ProcessLine runs the program on one line. It returns a non-empty reason if
// the line left the envelope in which the reference defines the result.
func (in *Interp) ProcessLine(file, line string) (out string) {
	in.file, in.line = file, line
	in.caps = map[int][]string{}
	in.steps = 0
	in.nextSt = nil
	defer func() {
		if r := recover(); r != nil {
			switch e := r.(type) {
			case rtError:
				in.Errors++
			case stopLine:
			case outside:
				out = e.why
			default:
				panic(r)
			}
		}
	}()
	in.block(in.Prog.Stmts)
	return ""
}

func key(labels []string) string { return strings.Join(labels, "\x00") }

func (in *Interp) datum(m *MetricState, labels []string) *Datum {
	k := key(labels)
	d := m.Data[k]
	if d == nil {
		d = &Datum{Labels: append([]string(nil), labels...), V: Value{Ty: m.Decl.Ty}}
		m.Data[k] = d
	}
	return d
}

func (in *Interp) keys(ks []*Expr) []string {
	out := make([]string, len(ks))
	for i, k := range ks {
		out[i] = in.toStr(in.eval(k))
	}
	return out
}

func shortDecimal(f float64) (string, bool) {
	if f == 0 {
		return "0", true
	}
	a := math.Abs(f)
	if math.IsNaN(f) || math.IsInf(f, 0) || a < 1e-4 || a >= 1e6 {
		return "", false
	}
	return strconv.FormatFloat(f, 'f', -1, 64), true
}

func (in *Interp) toStr(v Value) string {
	switch v.Ty {
	case TInt:
		return strconv.FormatInt(v.I, 10)
	case TFloat:
		s, ok := shortDecimal(v.F)
		if !ok {
			panic(outside{"float to string outside the short-decimal range"})
		}
		return s
	case TString:
		return v.S
	}
	panic(outside{"bool to string"})
}

func (in *Interp) block(ss []*Stmt) {
	matched := false
	for _, s := range ss {
		in.steps++
		switch s.Op {
		case "cond":
			if in.cond(s) {
				in.block(s.Then)
				matched = true
			} else if s.HasEls {
				in.block(s.Else)
			}
		case "otherwise":
			if !matched {
				in.block(s.Then)
				matched = true
			}
		case "incr", "dec":
			m := in.Metrics[s.Metric]
			d := in.datum(m, in.keys(s.Keys))
			if s.Op == "incr" {
				d.V.I = in.exact(d.V.I + 1)
			} else {
				d.V.I = in.exact(d.V.I - 1)
			}
		case "addassign":
			m := in.Metrics[s.Metric]
			d := in.datum(m, in.keys(s.Keys))
			v := in.eval(s.E)
			switch m.Decl.Ty {
			case TInt:
				d.V.I = in.exact(d.V.I + in.asInt(v))
			case TFloat:
				d.V.F = d.V.F + in.asFloat(v)
			case TString:
				d.V.S = d.V.S + in.toStr(v)
			}
		case "assign":
			m := in.Metrics[s.Metric]
			d := in.datum(m, in.keys(s.Keys))
			v := in.eval(s.E)
			switch m.Decl.Ty {
			case TInt:
				d.V.I = in.asInt(v)
			case TFloat:
				d.V.F = in.asFloat(v)
			case TString:
				d.V.S = in.toStr(v)
			}
		case "del":
			m := in.Metrics[s.Metric]
			ks := in.keys(s.Keys)
			if s.After == "" {
				delete(m.Data, key(ks))
			} else {
				d := m.Data[key(ks)]
				if d == nil {
					panic(rtError{"delayed delete of an absent datum"})
				}
				dur, err := time.ParseDuration(s.After)
				if err != nil {
					panic(outside{"duration " + s.After})
				}
				d.Expiry = dur
			}
		case "stop":
			panic(stopLine{})
		case "next":
			if len(in.nextSt) == 0 {
				panic(outside{"next outside a decorator"})
			}
			body := in.nextSt[len(in.nextSt)-1]
			in.nextSt = in.nextSt[:len(in.nextSt)-1]
			in.block(body)
		case "deco":
			d := in.decos[s.Deco]
			if d == nil {
				panic(outside{"undefined decorator"})
			}
			depth := len(in.nextSt)
			in.nextSt = append(in.nextSt, s.Then)
			in.block(d.Body)
			if len(in.nextSt) > depth {
				in.nextSt = in.nextSt[:depth]
			}
		case "exprstmt":
			in.eval(s.E)
		}
	}
}

func (in *Interp) match(p *Pattern, text string) bool {
	m := in.regex(p).FindStringSubmatch(text)
	in.caps[p.ID] = m
	return m != nil
}

func (in *Interp) cond(s *Stmt) bool {
	switch {
	case s.Pat != nil && s.E == nil:
		return in.match(s.Pat, in.line)
	case s.Pat != nil && s.LogOp == "&&":
		if !in.match(s.Pat, in.line) {
			return false
		}
		return in.truth(in.eval(s.E))
	case s.Pat != nil && s.LogOp == "||":
		if in.match(s.Pat, in.line) {
			return true
		}
		return in.truth(in.eval(s.E))
	}
	return in.truth(in.eval(s.E))
}

func (in *Interp) truth(v Value) bool {
	if v.Ty != TBool {
		panic(outside{"condition of non-Bool type"})
	}
	return v.B
}

func (in *Interp) exact(i int64) int64 {
	if i > maxExact || i < -maxExact {
		panic(outside{"integer beyond 2^53"})
	}
	return i
}

func (in *Interp) asInt(v Value) int64 {
	if v.Ty != TInt {
		panic(outside{"expected Int value, got " + v.Ty.String()})
	}
	return v.I
}

func (in *Interp) asFloat(v Value) float64 {
	switch v.Ty {
	case TFloat:
		return v.F
	case TInt:
		return float64(v.I)
	}
	panic(outside{"expected numeric value, got " + v.Ty.String()})
}

func (in *Interp) eval(e *Expr) Value {
	in.steps++
	switch e.Op {
	case "lit":
		return Value{Ty: e.Ty, I: e.I, F: e.F, S: e.S}
	case "paren":
		return in.eval(e.Args[0])
	case "cap":
		g := in.caps[e.Pat]
		if g == nil || len(g) <= e.Num {
			panic(rtError{"capture group of a pattern that did not match"})
		}
		text := g[e.Num]
		switch e.Ty {
		case TInt:
			i, err := strconv.ParseInt(text, 10, 64)
			if err != nil {
				panic(rtError{"capture to int"})
			}
			return Value{Ty: TInt, I: in.exact(i)}
		case TFloat:
			f, err := strconv.ParseFloat(text, 64)
			if err != nil {
				panic(rtError{"capture to float"})
			}
			return Value{Ty: TFloat, F: f}
		}
		return Value{Ty: TString, S: text}
	case "mread":
		m := in.Metrics[e.Name]
		d := in.datum(m, in.keys(e.Args))
		return d.V
	case "match":
		l := in.toStr(in.eval(e.Args[0]))
		r := in.match(e.PatV, l)
		if e.Neg {
			r = !r
		}
		return Value{Ty: TBool, B: r}
	case "call":
		return in.call(e)
	case "bin":
		return in.bin(e)
	}
	panic(outside{"unknown expression " + e.Op})
}

func (in *Interp) call(e *Expr) Value {
	switch e.Name {
	case "len":
		return Value{Ty: TInt, I: int64(len(in.toStr(in.eval(e.Args[0]))))}
	case "tolower":
		return Value{Ty: TString, S: strings.ToLower(in.toStr(in.eval(e.Args[0])))}
	case "subst":
		if e.Args[0].Op == "patlit" {
			repl := in.toStr(in.eval(e.Args[1]))
			val := in.toStr(in.eval(e.Args[2]))
			return Value{Ty: TString, S: in.regex(e.Args[0].PatV).ReplaceAllLiteralString(val, repl)}
		}
		old := in.toStr(in.eval(e.Args[0]))
		repl := in.toStr(in.eval(e.Args[1]))
		val := in.toStr(in.eval(e.Args[2]))
		return Value{Ty: TString, S: strings.ReplaceAll(val, old, repl)}
	case "strtol":
		s := in.toStr(in.eval(e.Args[0]))
		base := in.asInt(in.eval(e.Args[1]))
		if base <= 0 || base >= math.MaxInt32 {
			panic(rtError{"base out of range"})
		}
		i, err := strconv.ParseInt(s, int(base), 64)
		if err != nil {
			panic(rtError{"strtol conversion"})
		}
		return Value{Ty: TInt, I: in.exact(i)}
	case "int":
		v := in.eval(e.Args[0])
		switch v.Ty {
		case TInt:
			return v
		case TString:
			i, err := strconv.ParseInt(v.S, 10, 64)
			if err != nil {
				panic(rtError{"int conversion"})
			}
			return Value{Ty: TInt, I: in.exact(i)}
		}
		panic(outside{"int() of " + v.Ty.String()})
	case "float":
		v := in.eval(e.Args[0])
		switch v.Ty {
		case TFloat:
			return v
		case TInt:
			return Value{Ty: TFloat, F: float64(v.I)}
		case TString:
			f, err := strconv.ParseFloat(v.S, 64)
			if err != nil {
				panic(rtError{"float conversion"})
			}
			return Value{Ty: TFloat, F: f}
		}
		panic(outside{"float() of " + v.Ty.String()})
	case "string":
		return Value{Ty: TString, S: in.toStr(in.eval(e.Args[0]))}
	case "getfilename":
		return Value{Ty: TString, S: in.file}
	}
	panic(outside{"builtin " + e.Name})
}

func (in *Interp) bin(e *Expr) Value {
	op := e.Name
	if op == "&&" || op == "||" {
		l := in.truth(in.eval(e.Args[0]))
		if op == "&&" && !l {
			return Value{Ty: TBool, B: false}
		}
		if op == "||" && l {
			return Value{Ty: TBool, B: true}
		}
		return Value{Ty: TBool, B: in.truth(in.eval(e.Args[1]))}
	}
	l := in.eval(e.Args[0])
	r := in.eval(e.Args[1])
	switch op {
	case "<", "<=", ">", ">=", "==", "!=":
		var c int
		switch {
		case l.Ty == TString && r.Ty == TString:
			// the reference does not say how strings that look like numbers compare
			if _, err := strconv.ParseFloat(l.S, 64); err == nil {
				panic(outside{"comparison of a numeric-looking string"})
			}
			if _, err := strconv.ParseFloat(r.S, 64); err == nil {
				panic(outside{"comparison of a numeric-looking string"})
			}
			c = strings.Compare(l.S, r.S)
		case l.Ty == TInt && r.Ty == TInt:
			switch {
			case l.I < r.I:
				c = -1
			case l.I > r.I:
				c = 1
			}
		case (l.Ty == TInt || l.Ty == TFloat) && (r.Ty == TInt || r.Ty == TFloat):
			a, b := in.asFloat(l), in.asFloat(r)
			if math.IsNaN(a) || math.IsNaN(b) {
				panic(outside{"comparison with NaN"})
			}
			switch {
			case a < b:
				c = -1
			case a > b:
				c = 1
			}
		default:
			panic(outside{"comparison of " + l.Ty.String() + " with " + r.Ty.String()})
		}
		var b bool
		switch op {
		case "<":
			b = c < 0
		case "<=":
			b = c <= 0
		case ">":
			b = c > 0
		case ">=":
			b = c >= 0
		case "==":
			b = c == 0
		case "!=":
			b = c != 0
		}
		return Value{Ty: TBool, B: b}
	}
	if op == "+" && l.Ty == TString && r.Ty == TString {
		return Value{Ty: TString, S: l.S + r.S}
	}
	if l.Ty == TInt && r.Ty == TInt {
		a, b := l.I, r.I
		var res int64
		switch op {
		case "+":
			res = a + b
		case "-":
			res = a - b
		case "*":
			if a != 0 && b != 0 && (abs64(a) > maxExact/abs64(b)) {
				panic(outside{"integer product beyond 2^53"})
			}
			res = a * b
		case "/":
			if b == 0 {
				panic(rtError{"integer division by zero"})
			}
			res = a / b
		case "%":
			if b == 0 {
				panic(rtError{"integer modulus by zero"})
			}
			res = a % b
		case "**":
			if b < 0 {
				panic(outside{"negative integer exponent"})
			}
			f := math.Pow(float64(a), float64(b))
			if math.Abs(f) > float64(maxExact) {
				panic(outside{"integer power beyond 2^53"})
			}
			res = int64(f)
		case "<<":
			if b < 0 || b >= math.MaxInt32 {
				panic(rtError{"shift out of range"})
			}
			if b >= 53 || abs64(a) > maxExact>>uint(b) {
				panic(outside{"shift result beyond 2^53"})
			}
			res = a << uint(b)
		case ">>":
			if b < 0 || b >= math.MaxInt32 {
				panic(rtError{"shift out of range"})
			}
			if b >= 64 {
				b = 63
			}
			res = a >> uint(b)
		case "&":
			res = a & b
		case "|":
			res = a | b
		case "^":
			res = a ^ b
		default:
			panic(outside{"operator " + op})
		}
		return Value{Ty: TInt, I: in.exact(res)}
	}
	if (l.Ty == TInt || l.Ty == TFloat) && (r.Ty == TInt || r.Ty == TFloat) {
		a, b := in.asFloat(l), in.asFloat(r)
		var res float64
		switch op {
		case "+":
			res = a + b
		case "-":
			res = a - b
		case "*":
			res = a * b
		case "/":
			res = a / b
		case "%":
			res = math.Mod(a, b)
		case "**":
			res = math.Pow(a, b)
		default:
			panic(outside{"operator " + op + " on Float"})
		}
		return Value{Ty: TFloat, F: res}
	}
	panic(outside{fmt.Sprintf("operator %s on %v,%v", op, l.Ty, r.Ty)})
}

func abs64(a int64) int64 {
	if a < 0 {
		return -a
	}
	return a
}

// Dump renders R's metric state canonically, in the same form as DumpReal in
// the lang package renders mtail's.
func (in *Interp) Dump() string {
	var ms []string
	for _, m := range in.Prog.Metrics {
		st := in.Metrics[m.Name]
		var rows []string
		for _, d := range st.Data {
			rows = append(rows, fmt.Sprintf("  %q = %s exp=%d", d.Labels, valString(d.V), int64(d.Expiry)))
		}
		sort.Strings(rows)
		ms = append(ms, m.Exported()+" "+m.Ty.String()+"\n"+strings.Join(rows, "\n"))
	}
	sort.Strings(ms)
	return strings.Join(ms, "\n")
}

func valString(v Value) string {
	switch v.Ty {
	case TInt:
		return fmt.Sprintf("i:%d", v.I)
	case TFloat:
		if math.IsNaN(v.F) {
			return "f:NaN"
		}
		return fmt.Sprintf("f:%x", math.Float64bits(v.F))
	case TString:
		return fmt.Sprintf("s:%q", v.S)
	}
	return "?"
}
