package gen

import (
	"fmt"
	"strings"

	"pgregory.net/rapid"
)

// Features switches constructs of the generator on and off.
type Features struct {
	Floats, Dimensioned, Text, Hidden, As, Limit, Timer bool
	Else, Otherwise, OtherwiseInElse                    bool
	Decorators, Consts, MatchOps                        bool
	Del, DelAfter, Stop                                 bool
	Builtins, Arith, Bitwise, Shifts, Pow               bool
	LogicalOps, PatternLogical                          bool
	RuntimeErrors                                       bool
	NumericCaprefs, RedundantParens                     bool
	FloatKeys, MetricReads, StringConcat                bool
	PinTypes                                            bool // every metric gets a write with an operand of concrete type
	// constructs the reference does not define (used by C04/C23 only, never with R)
	MixedWrites, StringNumberCompare, NonBoolCond, Unary bool
	Histograms, HistIncr                                 bool // histogram declarations (no reference semantics in R); ++ on a histogram
	QuotedKeys, HostileStrings, SmallBuckets             bool // formatter-relevant spellings (C23)
	BoolInArith                                          bool // a comparison used as an integer operand (rejected by the pinned compiler)
	NoUnaryOnBool                                        bool // with Unary: ~ only on Int operands
	NoFloatIntoInt                                       bool // with MixedWrites: only Int values into Float metrics
	TimeBuiltins                                         bool
	IncAsValue                                           bool // m++ / m-- used as an Int operand (never with R)
	CapNamedLikeMetric                                   bool // a capture group named like a declared metric
	NoTextReads                                          bool // text metrics are never read (for long line streams: `t = t + t` doubles a text on every line)
	NoRecursiveDecorators                                bool // a decorator is not used inside its own decorated block
	OnePatternPerCond                                    bool // at most one pattern (line pattern or match operator) per condition
	NoMixedMetricReads                                   bool // no metric reads inside mixed Int/Float arithmetic or comparisons
	OddDurations                                         bool // del ... after with sub-second and mixed-unit durations (C23)
	ShortExpiry                                          bool // del ... after uses 1ms as well (so that a GC pass a few ms later removes the datum)
	MaxStmts, MaxDepth, MaxExprDepth                     int
}

// AllFeatures is the C01 feature set.
func AllFeatures() Features {
	return Features{
		Floats: true, Dimensioned: true, Text: true, Hidden: true, As: true, Limit: true, Timer: true,
		Else: true, Otherwise: true, OtherwiseInElse: true,
		Decorators: true, Consts: true, MatchOps: true,
		Del: true, DelAfter: true, Stop: true,
		Builtins: true, Arith: true, Bitwise: true, Shifts: true, Pow: true,
		LogicalOps: true, PatternLogical: true, RuntimeErrors: true,
		NumericCaprefs: true, RedundantParens: true, FloatKeys: true, MetricReads: true, StringConcat: true,
		CapNamedLikeMetric: true,
		MaxStmts:           12, MaxDepth: 3, MaxExprDepth: 4,
	}
}

type capRef struct {
	Pat  int
	Name string
	Num  int
	Ty   Ty
	Ts   bool
}

// G is the generator state for one program.
type G struct {
	t          *rapid.T
	F          Features
	P          *Program
	nextCap    int
	capNames   map[string]bool
	nextPat    int
	scope      []capRef
	patsVis    int
	written    map[string]bool
	used       map[string]bool
	stmts      int
	Patterns   []*Pattern // line patterns, for the line generator
	Classes    map[string]bool
	inKey      int
	condPats   int // patterns used so far in the condition being generated
	decoActive map[string]int
	seenPats   []*Pattern // patterns used so far (candidates for a byte-identical second pattern)
}

func (g *G) class(c string) { g.Classes[c] = true }

func (g *G) intn(label string, n int) int { return rapid.IntRange(0, n-1).Draw(g.t, label) }
func (g *G) chance(label string, pct int) bool {
	return rapid.IntRange(0, 99).Draw(g.t, label) < pct
}
func pick[T any](g *G, label string, xs []T) T {
	return xs[rapid.IntRange(0, len(xs)-1).Draw(g.t, label)]
}

// GenProgram draws a program.
func GenProgram(t *rapid.T, f Features) *G {
	g := &G{t: t, F: f, P: &Program{}, written: map[string]bool{}, used: map[string]bool{}, Classes: map[string]bool{}, decoActive: map[string]int{}}
	g.genDecls()
	if f.Consts && g.chance("hasconst", 30) {
		n := 1 + g.intn("nconst", 2)
		for i := 0; i < n; i++ {
			c := pick(g, "const", []Const{{Re: `pre\d+ `, Inst: "pre12 "}, {Re: `[xyz]+`, Inst: "xyz"}, {Re: ` end`, Inst: " end"}, {Re: `=`, Inst: "="}})
			c.Name = fmt.Sprintf("K%d", i)
			cc := c
			g.P.Consts = append(g.P.Consts, &cc)
		}
	}
	if f.Decorators && g.chance("hasdeco", 35) {
		n := 1 + g.intn("ndeco", 2)
		for i := 0; i < n; i++ {
			g.genDecoDef(fmt.Sprintf("d%d", i))
		}
	}
	n := 1 + g.intn("nstmts", 5)
	g.P.Stmts = g.genBlock(0, n, blockCtx{top: true})
	g.PruneUnused()
	// every declaration must be used, and every metric needs a write that pins its type
	written := map[string]bool{}
	var walk func(ss []*Stmt)
	walk = func(ss []*Stmt) {
		for _, s := range ss {
			switch s.Op {
			case "incr", "dec":
				written[s.Metric] = true
			case "assign", "addassign":
				// a write pins the metric's type only through an operand of
				// concrete type (open finding C01-2); with PinTypes off any write counts
				if !g.F.PinTypes || hasConcreteLeaf(s.E) {
					written[s.Metric] = true
				}
			}
			walk(s.Then)
			walk(s.Else)
		}
	}
	walk(g.P.Stmts)
	for _, d := range g.P.Decos {
		walk(d.Body)
	}
	for _, m := range g.P.Metrics {
		if !written[m.Name] {
			save, savePats := g.scope, g.patsVis
			p := g.genPattern(true)
			st := &Stmt{Op: "cond", Pat: p}
			g.pushCaps(p)
			st.Then = []*Stmt{g.genWrite(m)}
			g.scope, g.patsVis = save, savePats
			g.P.Stmts = append(g.P.Stmts, st)
		}
	}
	return g
}

func (g *G) genDecls() {
	n := 1 + g.intn("nmetrics", 5)
	usedAs := map[string]bool{}
	for i := 0; i < n; i++ {
		m := &Metric{Name: fmt.Sprintf("m%d", i)}
		kinds := []string{"counter", "counter", "gauge", "gauge"}
		if g.F.Timer {
			kinds = append(kinds, "timer")
		}
		if g.F.Text {
			kinds = append(kinds, "text")
		}
		if g.F.Histograms {
			kinds = append(kinds, "histogram")
		}
		m.Kind = pick(g, "kind", kinds)
		switch {
		case m.Kind == "text":
			m.Ty = TString
		case m.Kind == "histogram":
			m.Ty = TFloat
			m.Buckets = pick(g, "buckets", [][]float64{{1, 2, 4}, {0.5, 10}, {0, 1, 100}})
			if g.F.SmallBuckets && g.chance("smallbuckets", 40) {
				m.Buckets = pick(g, "sbuckets", [][]float64{{0.0000001, 0.5}, {0.00000025, 0.0000005, 1}, {1e-9, 1e9}, {0.001, 0.002}, {1, 1e10, 1e20}})
				g.class("small-bucket-boundaries")
			}
		case g.F.Floats && g.chance("float", 30):
			m.Ty = TFloat
		default:
			m.Ty = TInt
		}
		if g.F.Dimensioned && g.chance("dim", 45) {
			nk := 1 + g.intn("nkeys", 2)
			for k := 0; k < nk; k++ {
				key := fmt.Sprintf("k%d", k)
				if g.F.QuotedKeys && g.chance("quotedkey", 25) {
					key = pick(g, "qkey", []string{"a-b", "x.y", "with space", "9lives", "_kind", "__"}) + fmt.Sprint(k)
					g.class("quoted-key")
				}
				m.Keys = append(m.Keys, key)
			}
			if g.F.Limit && g.chance("limit", 15) {
				m.Limit = 1 + g.intn("limitn", 50)
			}
		}
		if g.F.Hidden && g.chance("hidden", 15) {
			m.Hidden = true
		}
		if g.F.As && g.chance("as", 15) {
			names := []string{"line-count", "x.y", "renamed", "a b"}
			if g.F.HostileStrings {
				names = append(names, "say \"hi\"", "\"", "back\\slash", "q\" as \"r")
			}
			as := pick(g, "asname", names)
			if !usedAs[as] {
				usedAs[as] = true
				m.As = as
			}
		}
		g.P.Metrics = append(g.P.Metrics, m)
	}
}

// ---- patterns

var litWords = []string{"foo", "bar", "x", "id=", "GET", "err", "a"}

func (g *G) genPattern(forLine bool) *Pattern {
	p := &Pattern{ID: g.nextPat}
	g.nextPat++
	n := 1 + g.intn("ntoks", 4)
	num := 0
	for i := 0; i < n; i++ {
		if i > 0 {
			p.Toks = append(p.Toks, PatTok{Kind: "lit", Lit: " "})
		}
		kinds := []string{"lit", "lit", "int", "word", "nonspace", "abc", "sint"}
		if g.F.Floats {
			kinds = append(kinds, "float")
		}
		if g.F.Consts && len(g.P.Consts) > 0 && i > 0 {
			kinds = append(kinds, "const")
		}
		if g.F.TimeBuiltins {
			kinds = append(kinds, "ts", "ts")
		}
		k := pick(g, "tok", kinds)
		t := PatTok{Kind: k}
		switch k {
		case "lit":
			t.Lit = pick(g, "lit", litWords)
			if g.F.HostileStrings && g.chance("hostilepat", 20) {
				// slashes and backslashes inside a pattern literal (source spelling)
				t.Lit = pick(g, "hostilelit", []string{`http:\/\/x`, `a\\\/b`, `\\`, `\/`, `c:\\\\d`, `\\\\\/`})
				g.class("pattern-with-slash-or-backslash")
			}
		case "const":
			t.Lit = g.P.Consts[g.intn("constidx", len(g.P.Consts))].Name
			g.used[t.Lit] = true
		default:
			num++
			t.Num = num
			if !g.chance("unnamed", 25) {
				t.Name = fmt.Sprintf("c%d", g.nextCap)
				g.nextCap++
				if g.F.CapNamedLikeMetric && len(g.P.Metrics) > 0 && g.chance("caplikemetric", 12) {
					// a capture group may carry the name of a metric: different kinds
					// of names, and the group's name is only visible in its block
					if n := pick(g, "capmetric", g.P.Metrics).Name; !g.capNames[n] {
						if g.capNames == nil {
							g.capNames = map[string]bool{}
						}
						g.capNames[n] = true
						t.Name = n
						g.class("capture-group-named-like-a-metric")
					}
				}
			}
		}
		p.Toks = append(p.Toks, t)
	}
	p.Anchor = g.chance("anchor", 25)
	p.End = g.chance("endanchor", 15)
	if forLine {
		g.Patterns = append(g.Patterns, p)
	}
	return p
}

func tokTy(kind string) Ty {
	switch kind {
	case "int", "sint":
		return TInt
	case "float":
		return TFloat
	}
	return TString
}

func (g *G) pushCaps(p *Pattern) {
	g.seenPats = append(g.seenPats, p)
	for _, t := range p.Toks {
		if t.Num > 0 {
			g.scope = append(g.scope, capRef{Pat: p.ID, Name: t.Name, Num: t.Num, Ty: tokTy(t.Kind), Ts: t.Kind == "ts"})
		}
	}
	g.patsVis++
}

func (g *G) capsOf(ty Ty) []capRef {
	var out []capRef
	for _, c := range g.scope {
		if c.Ty == ty && (c.Name != "" || (g.F.NumericCaprefs && g.patsVis == 1)) {
			out = append(out, c)
		}
	}
	return out
}

func (g *G) capExpr(c capRef) *Expr {
	e := &Expr{Op: "cap", Ty: c.Ty, Name: c.Name, Num: c.Num, Pat: c.Pat}
	if c.Name == "" || (g.F.NumericCaprefs && g.patsVis == 1 && g.chance("bynum", 30)) {
		e.ByNum = true
		g.class("numeric-capref")
	}
	return e
}

// ---- expressions

func (g *G) paren(e *Expr) *Expr {
	if g.F.RedundantParens && g.chance("paren", 8) {
		g.class("redundant-parens")
		return &Expr{Op: "paren", Ty: e.Ty, Args: []*Expr{e}}
	}
	return e
}

func (g *G) metricsOf(ty Ty) []*Metric {
	var out []*Metric
	for _, m := range g.P.Metrics {
		if m.Ty == ty && m.Kind != "histogram" {
			out = append(out, m)
		}
	}
	return out
}

func (g *G) genKeys(m *Metric, d int) []*Expr {
	var ks []*Expr
	// restriction: no metric reads inside index keys (the reference shows
	// captures and strings as keys; the checker's inference ties a metric used
	// as a key to String)
	g.inKey++
	for range m.Keys {
		ks = append(ks, g.genKey(d))
	}
	g.inKey--
	return ks
}

func (g *G) genKey(d int) *Expr {
	switch g.intn("keykind", 10) {
	case 0, 1, 2, 3:
		if cs := g.capsOf(TString); len(cs) > 0 {
			return g.capExpr(pick(g, "kcap", cs))
		}
	case 4:
		if cs := g.capsOf(TInt); len(cs) > 0 {
			return g.capExpr(pick(g, "kcapi", cs))
		}
	case 5:
		if g.F.FloatKeys {
			if cs := g.capsOf(TFloat); len(cs) > 0 {
				g.class("float-key")
				return g.capExpr(pick(g, "kcapf", cs))
			}
		}
	case 6:
		return g.genInt(d + 2)
	case 7:
		return g.genString(d + 1)
	}
	return &Expr{Op: "lit", Ty: TString, S: pick(g, "klit", []string{"a", "b", "total", "GET", ""})}
}

// mixed runs f with metric reads switched off when open finding C01-4 asks for it.
func (g *G) mixed(f func()) {
	if g.F.NoMixedMetricReads {
		g.inKey++
		defer func() { g.inKey-- }()
	}
	f()
}

func (g *G) mread(m *Metric, d int) *Expr {
	g.used[m.Name] = true
	g.class("metric-read")
	return &Expr{Op: "mread", Ty: m.Ty, Name: m.Name, Args: g.genKeys(m, d)}
}

func (g *G) genInt(d int) *Expr {
	if d >= g.F.MaxExprDepth {
		return g.intLeaf(d)
	}
	if g.F.BoolInArith && d > 0 && g.inKey == 0 && g.chance("boolinarith", 2) {
		g.class("bool-in-arithmetic")
		return &Expr{Op: "paren", Ty: TInt, Args: []*Expr{g.genCmp(d + 1)}}
	}
	switch g.intn("intkind", 12) {
	case 0, 1, 2, 3:
		return g.intLeaf(d)
	case 4, 5, 6:
		if g.F.Arith {
			ops := []string{"+", "-", "*", "/", "%"}
			if g.F.Pow {
				ops = append(ops, "**")
			}
			op := pick(g, "iop", ops)
			l, r := g.genInt(d+1), g.genInt(d+1)
			if op == "**" {
				r = &Expr{Op: "lit", Ty: TInt, I: int64(g.intn("exp", 4))}
			}
			if (op == "/" || op == "%") && isConst(r) {
				// division by a constant zero (literal or folded) is a compile error (C24, C02)
				r = &Expr{Op: "lit", Ty: TInt, I: pick(g, "divisor", []int64{1, 2, 3, -2, 7})}
			}
			g.class("op-level-" + fmt.Sprint(opLevel[op]))
			return g.paren(&Expr{Op: "bin", Ty: TInt, Name: op, Args: []*Expr{l, r}})
		}
	case 7:
		if g.F.Bitwise {
			op := pick(g, "bop", []string{"&", "|", "^"})
			g.class("op-level-2")
			return g.paren(&Expr{Op: "bin", Ty: TInt, Name: op, Args: []*Expr{g.genInt(d + 1), g.genInt(d + 1)}})
		}
	case 8:
		if g.F.Shifts {
			op := pick(g, "sop", []string{"<<", ">>"})
			r := &Expr{Op: "lit", Ty: TInt, I: int64(g.intn("shift", 5))}
			if g.F.RuntimeErrors && g.chance("dynshift", 30) {
				r = g.genInt(d + 2)
			}
			g.class("op-level-4")
			return g.paren(&Expr{Op: "bin", Ty: TInt, Name: op, Args: []*Expr{g.genInt(d + 1), r}})
		}
	case 9, 10:
		if g.F.Builtins {
			switch g.intn("ibuiltin", 4) {
			case 0:
				g.class("builtin-len")
				return &Expr{Op: "call", Ty: TInt, Name: "len", Args: []*Expr{g.genString(d + 1)}}
			case 1:
				g.class("builtin-strtol")
				return &Expr{Op: "call", Ty: TInt, Name: "strtol", Args: []*Expr{g.genString(d + 1), {Op: "lit", Ty: TInt, I: pick(g, "base", []int64{10, 16, 8, 2})}}}
			case 2:
				g.class("builtin-int")
				return &Expr{Op: "call", Ty: TInt, Name: "int", Args: []*Expr{g.genString(d + 1)}}
			default:
				return &Expr{Op: "call", Ty: TInt, Name: "int", Args: []*Expr{g.genInt(d + 1)}}
			}
		}
	}
	return g.intLeaf(d)
}

func (g *G) intLeaf(d int) *Expr {
	if g.F.TimeBuiltins && g.chance("timestamp", 6) {
		g.class("builtin-timestamp")
		return &Expr{Op: "call", Ty: TInt, Name: "timestamp"}
	}
	switch g.intn("ileaf", 6) {
	case 0, 1:
		if cs := g.capsOf(TInt); len(cs) > 0 {
			return g.capExpr(pick(g, "icap", cs))
		}
	case 2:
		if g.F.MetricReads && g.inKey == 0 {
			if ms := g.metricsOf(TInt); len(ms) > 0 && d < g.F.MaxExprDepth+1 {
				e := g.mread(pick(g, "imetric", ms), d+1)
				if g.F.IncAsValue && g.chance("incasvalue", 30) {
					e.Post = pick(g, "postop", []string{"++", "--"})
					g.class("increment-used-as-value")
				}
				return e
			}
		}
	}
	return &Expr{Op: "lit", Ty: TInt, I: pick(g, "ilit", []int64{0, 1, 2, 3, 7, 10, 42, -1, -3, 100})}
}

func (g *G) floatLeaf(d int) *Expr {
	switch g.intn("fleaf", 6) {
	case 0, 1:
		if cs := g.capsOf(TFloat); len(cs) > 0 {
			return g.capExpr(pick(g, "fcap", cs))
		}
	case 2:
		if g.F.MetricReads && g.inKey == 0 {
			if ms := g.metricsOf(TFloat); len(ms) > 0 && d < g.F.MaxExprDepth+1 {
				return g.mread(pick(g, "fmetric", ms), d+1)
			}
		}
	}
	return &Expr{Op: "lit", Ty: TFloat, F: pick(g, "flit", []float64{0.5, 1.5, 2.25, 2.0, 10.0, 0.0, -1.5, 100.125})}
}

func (g *G) genFloat(d int) *Expr {
	if d >= g.F.MaxExprDepth {
		return g.floatLeaf(d)
	}
	switch g.intn("floatkind", 10) {
	case 0, 1, 2:
		return g.floatLeaf(d)
	case 3, 4, 5, 6:
		if g.F.Arith {
			ops := []string{"+", "-", "*", "/"}
			if g.F.Pow {
				ops = append(ops, "**", "%")
			}
			op := pick(g, "fop", ops)
			var l, r *Expr
			switch g.intn("mix", 3) {
			case 0:
				l, r = g.genFloat(d+1), g.genFloat(d+1)
			case 1:
				g.mixed(func() { l, r = g.genInt(d+1), g.genFloat(d+1) })
				g.class("mixed-int-float")
			default:
				g.mixed(func() { l, r = g.genFloat(d+1), g.genInt(d+1) })
				g.class("mixed-int-float")
			}
			if (op == "/" || op == "%") && isConst(r) {
				if r.Ty == TInt {
					r = &Expr{Op: "lit", Ty: TInt, I: pick(g, "fdivisori", []int64{1, 2, 4, -2})}
				} else {
					r = &Expr{Op: "lit", Ty: TFloat, F: pick(g, "fdivisor", []float64{0.5, 2.5, 4.0, -2.0})}
				}
			}
			g.class("op-level-" + fmt.Sprint(opLevel[op]))
			return g.paren(&Expr{Op: "bin", Ty: TFloat, Name: op, Args: []*Expr{l, r}})
		}
	case 7, 8:
		if g.F.Builtins {
			if g.chance("floatofstr", 50) {
				g.class("builtin-float")
				return &Expr{Op: "call", Ty: TFloat, Name: "float", Args: []*Expr{g.genString(d + 1)}}
			}
			return &Expr{Op: "call", Ty: TFloat, Name: "float", Args: []*Expr{g.genInt(d + 1)}}
		}
	}
	return g.floatLeaf(d)
}

func (g *G) strLeaf(d int) *Expr {
	switch g.intn("sleaf", 6) {
	case 0, 1, 2:
		if cs := g.capsOf(TString); len(cs) > 0 {
			return g.capExpr(pick(g, "scap", cs))
		}
	case 3:
		if g.F.Builtins {
			g.class("builtin-getfilename")
			return &Expr{Op: "call", Ty: TString, Name: "getfilename"}
		}
	case 4:
		if g.F.MetricReads && g.F.Text && g.inKey == 0 {
			if ms := g.metricsOf(TString); len(ms) > 0 && d < g.F.MaxExprDepth+1 && !g.F.NoTextReads {
				return g.mread(pick(g, "smetric", ms), d+1)
			}
		}
	}
	if g.F.HostileStrings && g.chance("hostilestr", 30) {
		g.class("string-with-quote-or-backslash")
		return &Expr{Op: "lit", Ty: TString, S: pick(g, "hslit", []string{"a\"b", "\"", "x\\y", "tab\\t", "q\"\"q", "C:\\\\dir\\\\", "\\\\", "say \"hi\" \\\\", "end\\\\"})}
	}
	return &Expr{Op: "lit", Ty: TString, S: pick(g, "slit", []string{"a", "foo", "Foo", "x y", "", "12", "0x1f", "GET"})}
}

func (g *G) genString(d int) *Expr {
	if d >= g.F.MaxExprDepth || !g.F.Builtins {
		return g.strLeaf(d)
	}
	switch g.intn("strkind", 12) {
	case 0:
		g.class("builtin-tolower")
		return &Expr{Op: "call", Ty: TString, Name: "tolower", Args: []*Expr{g.genString(d + 1)}}
	case 1:
		g.class("builtin-subst")
		return &Expr{Op: "call", Ty: TString, Name: "subst", Args: []*Expr{
			{Op: "lit", Ty: TString, S: pick(g, "old", []string{"o", "a", "x", "oo"})},
			{Op: "lit", Ty: TString, S: pick(g, "new", []string{"", "0", "ab", "o"})},
			g.genString(d + 1)}}
	case 2:
		g.class("builtin-subst-regex")
		pat := &Pattern{ID: g.nextPat, Toks: []PatTok{{Kind: "lit", Lit: pick(g, "substre", []string{`o+`, `[a-c]`, `\d`, `^f`, `(o)(.)`, `(?P<n>\d)`})}}}
		g.nextPat++
		return &Expr{Op: "call", Ty: TString, Name: "subst", Args: []*Expr{
			{Op: "patlit", PatV: pat},
			// the replacement is literal text, whatever it looks like
			{Op: "lit", Ty: TString, S: pick(g, "new2", []string{"", "_", "zz", "$1", "${1}x", "$n", "$$", "a$2b"})},
			g.genString(d + 1)}}
	case 3:
		g.class("builtin-string")
		return &Expr{Op: "call", Ty: TString, Name: "string", Args: []*Expr{g.genInt(d + 1)}}
	case 4:
		if g.F.StringConcat {
			g.class("string-concat")
			return g.paren(&Expr{Op: "bin", Ty: TString, Name: "+", Args: []*Expr{g.genString(d + 1), g.genString(d + 1)}})
		}
	}
	return g.strLeaf(d)
}

func (g *G) genCmp(d int) *Expr {
	op := pick(g, "cmp", []string{"<", "<=", ">", ">=", "==", "!="})
	var l, r *Expr
	if g.F.StringNumberCompare && g.chance("strnum", 12) {
		g.class("string-number-compare")
		if g.chance("strleft", 50) {
			return &Expr{Op: "bin", Ty: TBool, Name: op, Args: []*Expr{g.genString(d + 1), g.genInt(d + 1)}}
		}
		return &Expr{Op: "bin", Ty: TBool, Name: op, Args: []*Expr{g.genFloat(d + 1), g.genString(d + 1)}}
	}
	switch g.intn("cmpkind", 6) {
	case 0, 1, 2:
		l, r = g.genInt(d+1), g.genInt(d+1)
	case 3:
		if g.F.Floats {
			if g.chance("cmpmix", 50) {
				g.mixed(func() { l, r = g.genInt(d+1), g.genFloat(d+1) })
			} else {
				l, r = g.genFloat(d+1), g.genFloat(d+1)
			}
			g.class("float-compare")
		} else {
			l, r = g.genInt(d+1), g.genInt(d+1)
		}
	default:
		l, r = g.genString(d+1), g.genString(d+1)
		g.class("string-compare")
	}
	g.class("op-level-3")
	return &Expr{Op: "bin", Ty: TBool, Name: op, Args: []*Expr{l, r}}
}

// genBool draws a condition expression. newCaps receives the pattern of a
// match operator whose captures become visible in the block.
func (g *G) genBool(d int, matchPat **Pattern) *Expr {
	if g.F.NonBoolCond && d == 0 && g.chance("nonbool", 8) {
		g.class("non-bool-condition")
		if g.chance("nonboolstr", 30) {
			return g.genString(1)
		}
		return g.genInt(1)
	}
	if g.F.Unary && d == 0 && g.chance("unary", 7) {
		if g.F.NoUnaryOnBool || g.chance("unaryint", 50) {
			g.class("unary-on-int")
			return &Expr{Op: "unary", Ty: TBool, Name: "~", Args: []*Expr{g.genInt(2)}}
		}
		g.class("unary-on-bool")
		return &Expr{Op: "unary", Ty: TBool, Name: "~", Args: []*Expr{{Op: "paren", Ty: TBool, Args: []*Expr{g.genCmp(1)}}}}
	}
	k := g.intn("boolkind", 10)
	switch {
	case k < 5 || d >= 2:
		return g.genCmp(d)
	case k < 7 && g.F.MatchOps && !(g.F.OnePatternPerCond && g.condPats > 0):
		g.condPats++
		cs := g.capsOf(TString)
		var l *Expr
		if len(cs) > 0 {
			l = g.capExpr(pick(g, "mcap", cs))
		} else if g.F.Builtins {
			l = &Expr{Op: "call", Ty: TString, Name: "getfilename"}
		} else {
			return g.genCmp(d)
		}
		pat := &Pattern{ID: g.nextPat}
		g.nextPat++
		pat.Toks = []PatTok{{Kind: "lit", Lit: pick(g, "mre", []string{"o", "^[a-c]+$", "a", `\d`, "log", "^f"})}}
		if len(g.seenPats) > 0 && g.chance("sametext", 25) {
			// a second pattern with byte-identical text (unnamed groups only, so no name clashes)
			src := pick(g, "samepat", g.seenPats)
			named := false
			for _, t := range src.Toks {
				if t.Name != "" || t.Kind == "const" {
					named = true
				}
			}
			if !named {
				pat.Toks = append([]PatTok(nil), src.Toks...)
				pat.Anchor, pat.End = src.Anchor, src.End
				g.class("two-patterns-same-text")
				if matchPat != nil && *matchPat == nil {
					*matchPat = pat
				}
				return &Expr{Op: "match", Ty: TBool, Args: []*Expr{l}, PatV: pat}
			}
		}
		if matchPat != nil && *matchPat == nil && g.chance("mcapture", 40) {
			pat.Toks = []PatTok{{Kind: pick(g, "mcapkind", []string{"int", "word", "abc"}), Num: 1, Name: fmt.Sprintf("c%d", g.nextCap)}}
			g.nextCap++
			*matchPat = pat
			g.class("match-op-with-capture")
		}
		g.class("match-op")
		return &Expr{Op: "match", Ty: TBool, Neg: g.chance("negmatch", 30) && (matchPat == nil || *matchPat != pat), Args: []*Expr{l}, PatV: pat}
	case g.F.LogicalOps:
		op := pick(g, "lop", []string{"&&", "||"})
		g.class("op-level-1")
		l := g.genBool(d+1, nil)
		// a capturing match operator on the right of a short-circuit operator: the
		// block may run without the match having been evaluated
		r := g.genBool(d+1, matchPat)
		if matchPat != nil && *matchPat != nil {
			g.class("capturing-match-behind-short-circuit")
		}
		return g.paren(&Expr{Op: "bin", Ty: TBool, Name: op, Args: []*Expr{l, r}})
	}
	return g.genCmp(d)
}

// ---- statements

func (g *G) genWrite(m *Metric) *Stmt {
	g.used[m.Name] = true
	g.written[m.Name] = true
	keys := g.genKeys(m, 1)
	if m.Kind == "histogram" {
		g.class("histogram-write")
		if g.F.HistIncr && g.chance("histincr", 25) {
			g.class("histogram-increment")
			return &Stmt{Op: "incr", Metric: m.Name, Keys: keys}
		}
		return &Stmt{Op: "assign", Metric: m.Name, Keys: keys, E: g.genFloat(1)}
	}
	if g.F.MixedWrites && m.Ty != TString && g.chance("mixedwrite", 12) {
		g.class("mixed-type-write")
		if m.Ty == TInt && !g.F.NoFloatIntoInt {
			return &Stmt{Op: "assign", Metric: m.Name, Keys: keys, E: g.genFloat(1)}
		}
		if m.Ty == TFloat {
			return &Stmt{Op: pick(g, "mwop", []string{"assign", "addassign"}), Metric: m.Name, Keys: keys, E: g.genInt(1)}
		}
	}
	switch m.Ty {
	case TInt:
		switch g.intn("iwrite", 6) {
		case 0, 1, 2:
			return &Stmt{Op: "incr", Metric: m.Name, Keys: keys}
		case 3:
			if m.Kind != "counter" {
				g.class("decrement")
				return &Stmt{Op: "dec", Metric: m.Name, Keys: keys}
			}
			return &Stmt{Op: "incr", Metric: m.Name, Keys: keys}
		case 4:
			return &Stmt{Op: "addassign", Metric: m.Name, Keys: keys, E: g.genInt(0)}
		default:
			return &Stmt{Op: "assign", Metric: m.Name, Keys: keys, E: g.genInt(0)}
		}
	case TFloat:
		e := g.genFloat(0)
		if g.chance("faddassign", 35) {
			g.class("float-add-assign")
			return &Stmt{Op: "addassign", Metric: m.Name, Keys: keys, E: e}
		}
		return &Stmt{Op: "assign", Metric: m.Name, Keys: keys, E: e}
	default:
		g.class("text-write")
		return &Stmt{Op: "assign", Metric: m.Name, Keys: keys, E: g.genString(0)}
	}
}

type blockCtx struct {
	top          bool
	inElse       bool
	inDecoDef    bool // directly in the decorator's block that holds `next`
	noOtherwise  bool // otherwise not allowed at this block's top (decorated body after a deco-level conditional)
	decoBodyOnly bool
}

func (g *G) genBlock(depth, n int, ctx blockCtx) []*Stmt {
	var out []*Stmt
	hadElseCond := false
	hadCond := false
	for i := 0; i < n && g.stmts < g.F.MaxStmts; i++ {
		g.stmts++
		k := g.intn("stmtkind", 20)
		switch {
		case k < 7:
			out = append(out, g.genWrite(pick(g, "wmetric", g.P.Metrics)))
		case k < 13 && depth < g.F.MaxDepth:
			c := g.genCond(depth)
			if c.HasEls {
				hadElseCond = true
			}
			hadCond = true
			out = append(out, c)
		case k == 13 && g.F.Otherwise && !hadElseCond && !ctx.noOtherwise && (!ctx.inElse || g.F.OtherwiseInElse):
			// `otherwise` never follows a conditional-with-else in the same block
			if ctx.inElse && !hadCond {
				g.class("otherwise-first-in-else")
			}
			if ctx.inElse {
				g.class("otherwise-in-else")
			}
			g.class("otherwise")
			sub := g.genBlock(depth+1, 1+g.intn("on", 2), blockCtx{})
			out = append(out, &Stmt{Op: "otherwise", Then: sub})
			hadCond = true
		case k == 14 && g.F.Del:
			var dims []*Metric
			for _, m := range g.P.Metrics {
				if len(m.Keys) > 0 {
					dims = append(dims, m)
				}
			}
			if len(dims) == 0 {
				out = append(out, g.genWrite(pick(g, "wmetric2", g.P.Metrics)))
				break
			}
			m := pick(g, "delmetric", dims)
			g.used[m.Name] = true
			st := &Stmt{Op: "del", Metric: m.Name, Keys: g.genKeys(m, 1)}
			if g.F.DelAfter && g.chance("after", 40) {
				if g.F.ShortExpiry {
					st.After = pick(g, "sdur", []string{"1ms", "1ms", "1h"})
				} else if g.F.OddDurations {
					st.After = pick(g, "odur", []string{"1h", "90m", "1500ms", "1.5s", "1m0.25s", "500ms", "2h0m0.5s", "36h", "45s", "1h30m"})
				} else {
					st.After = pick(g, "dur", []string{"1h", "24h", "90m", "1h30m"})
				}
				g.class("del-after")
			}
			g.class("del")
			out = append(out, st)
		case k == 17 && g.F.TimeBuiltins:
			if g.chance("settime", 40) {
				g.class("builtin-settime")
				out = append(out, &Stmt{Op: "exprstmt", E: &Expr{Op: "call", Ty: TInt, Name: "settime", Args: []*Expr{g.genInt(1)}}})
			} else {
				g.class("builtin-strptime")
				lay := pick(g, "layout", []string{"20060102T15:04", "20060201T15:04", "20060102T15:04", "2006-01-02", "15:04:05"})
				arg := g.genString(1)
				var tss []capRef
				for _, c := range g.scope {
					if c.Ts && c.Name != "" {
						tss = append(tss, c)
					}
				}
				if len(tss) > 0 && g.chance("tscap", 85) {
					arg = g.capExpr(pick(g, "tsc", tss))
					g.class("strptime-of-captured-timestamp")
				}
				out = append(out, &Stmt{Op: "exprstmt", E: &Expr{Op: "call", Ty: TInt, Name: "strptime", Args: []*Expr{arg, {Op: "lit", Ty: TString, S: lay}}}})
			}
		case k == 15 && g.F.Stop && g.chance("stop", 40):
			g.class("stop")
			out = append(out, &Stmt{Op: "stop"})
		case k == 16 && g.F.Decorators && len(g.P.Decos) > 0 && depth < g.F.MaxDepth:
			d := pick(g, "usedeco", g.P.Decos)
			if g.decoActive[d.Name] > 0 {
				if g.F.NoRecursiveDecorators {
					out = append(out, g.genWrite(pick(g, "wmetric5", g.P.Metrics)))
					break
				}
				g.class("decorator-nested-in-itself")
			}
			g.decoActive[d.Name]++
			g.used[d.Name] = true
			save, savePats := g.scope, g.patsVis
			condBeforeNext := false
			for _, p := range decoPatterns(d.Body, &condBeforeNext) {
				g.pushCaps(p)
			}
			g.patsVis += 2 // only named references reach into a decorated block
			body := g.genBlock(depth+1, 1+g.intn("dbody", 2), blockCtx{noOtherwise: true})
			g.decoActive[d.Name]--
			g.scope, g.patsVis = save, savePats
			g.class("decorator-use")
			out = append(out, &Stmt{Op: "deco", Deco: d.Name, Then: body})
			hadCond = true
			hadElseCond = true // keep `otherwise` away from what follows a decorated block
		default:
			out = append(out, g.genWrite(pick(g, "wmetric3", g.P.Metrics)))
		}
	}
	if len(out) == 0 {
		out = append(out, g.genWrite(pick(g, "wmetric4", g.P.Metrics)))
	}
	return out
}

// decoPatterns returns the patterns whose captures are visible at `next`.
func decoPatterns(ss []*Stmt, condBefore *bool) []*Pattern {
	for _, s := range ss {
		if s.Op == "next" {
			return []*Pattern{}
		}
		if s.Op == "cond" {
			if ps := decoPatterns(s.Then, condBefore); ps != nil {
				if s.Pat != nil {
					return append([]*Pattern{s.Pat}, ps...)
				}
				return ps
			}
			*condBefore = true
		}
	}
	return nil
}

func (g *G) genCond(depth int) *Stmt {
	st := &Stmt{Op: "cond"}
	save, savePats := g.scope, g.patsVis
	var matchPat *Pattern
	k := g.intn("condkind", 10)
	g.condPats = 0
	switch {
	case k < 6:
		st.Pat = g.genPattern(true)
		g.pushCaps(st.Pat)
	case k < 8 && g.F.PatternLogical:
		st.Pat = g.genPattern(true)
		g.condPats = 1
		st.LogOp = pick(g, "plop", []string{"&&", "&&", "||"})
		if st.LogOp == "&&" {
			g.pushCaps(st.Pat)
			st.E = g.genBool(0, nil)
			g.class("pattern-and-expr")
		} else {
			// the expression runs only when the pattern did not match: its captures are not usable there
			g.patsVis += 2
			st.E = g.genBool(0, nil)
			g.class("pattern-or-expr")
			// in the block the pattern may or may not have matched: do not expose its captures,
			// and it shadows outer numeric references
			g.patsVis += 2
		}
	default:
		st.E = g.genBool(0, &matchPat)
		if matchPat != nil {
			g.pushCaps(matchPat)
		}
	}
	// any pattern inside the condition is in scope in both blocks and shadows
	// outer numeric references there -- and in the rest of the condition itself
	if containsMatch(st.E) {
		g.patsVis += 2
		seen := 0
		sanitizeNumeric(st.E, &seen)
		fixConstDivisors(st.E)
	}
	nThen := 1 + g.intn("nthen", 3)
	st.Then = g.genBlock(depth+1, nThen, blockCtx{})
	g.scope, g.patsVis = save, savePats
	if g.F.Else && g.chance("else", 30) {
		st.HasEls = true
		g.class("else")
		// the condition's own patterns are still in (syntactic) scope in the
		// else block and shadow outer numeric references: no $N there
		if st.Pat != nil || matchPat != nil || containsMatch(st.E) {
			g.patsVis += 2
		}
		st.Else = g.genBlock(depth+1, 1+g.intn("nelse", 2), blockCtx{inElse: true})
		g.patsVis = savePats
	}
	if depth > 0 {
		g.class("nested-conditional")
	}
	return st
}

// sanitizeNumeric replaces numeric capture references that a pattern of the
// same condition would shadow by literals of the same type. The left operand
// of the first match operator is evaluated before any pattern of the condition
// is declared and is kept.
func sanitizeNumeric(e *Expr, matchesSeen *int) {
	if e == nil {
		return
	}
	if e.Op == "match" {
		l := e.Args[0]
		if !(l.Op == "cap" && l.ByNum && *matchesSeen == 0) {
			sanitizeNumeric(l, matchesSeen)
		}
		*matchesSeen++
		return
	}
	for i, a := range e.Args {
		if a != nil && a.Op == "cap" && a.ByNum {
			switch a.Ty {
			case TInt:
				e.Args[i] = &Expr{Op: "lit", Ty: TInt, I: 3}
			case TFloat:
				e.Args[i] = &Expr{Op: "lit", Ty: TFloat, F: 1.5}
			default:
				e.Args[i] = &Expr{Op: "lit", Ty: TString, S: "foo"}
			}
			continue
		}
		sanitizeNumeric(a, matchesSeen)
	}
}

// fixConstDivisors makes sure no / or % has a constant right operand (which
// might fold to zero) after a rewrite.
func fixConstDivisors(e *Expr) {
	if e == nil {
		return
	}
	if e.Op == "bin" && (e.Name == "/" || e.Name == "%") && isConst(e.Args[1]) {
		if e.Args[1].Ty == TFloat {
			e.Args[1] = &Expr{Op: "lit", Ty: TFloat, F: 2.5}
		} else {
			e.Args[1] = &Expr{Op: "lit", Ty: TInt, I: 2}
		}
	}
	for _, a := range e.Args {
		fixConstDivisors(a)
	}
}

func containsMatch(e *Expr) bool {
	if e == nil {
		return false
	}
	if e.Op == "match" {
		return true
	}
	for _, a := range e.Args {
		if containsMatch(a) {
			return true
		}
	}
	return false
}

func (g *G) genDecoDef(name string) {
	d := &DecoDef{Name: name}
	save, savePats := g.scope, g.patsVis
	pat := g.genPattern(true)
	c := &Stmt{Op: "cond", Pat: pat}
	g.pushCaps(pat)
	if g.chance("decopre", 50) {
		c.Then = append(c.Then, g.genWrite(pick(g, "dpre", g.P.Metrics)))
	}
	c.Then = append(c.Then, &Stmt{Op: "next"})
	if g.chance("decopost", 40) {
		c.Then = append(c.Then, g.genWrite(pick(g, "dpost", g.P.Metrics)))
		g.class("decorator-stmt-after-next")
	}
	g.scope, g.patsVis = save, savePats
	if g.chance("decolead", 25) {
		d.Body = append(d.Body, g.genWrite(pick(g, "dlead", g.P.Metrics)))
	}
	d.Body = append(d.Body, c)
	g.P.Decos = append(g.P.Decos, d)
}

// isConst reports whether e contains only literals (the optimiser folds it).
func isConst(e *Expr) bool {
	switch e.Op {
	case "lit":
		return true
	case "bin", "paren":
		for _, a := range e.Args {
			if !isConst(a) {
				return false
			}
		}
		return true
	}
	return false
}

func hasConcreteLeaf(e *Expr) bool {
	if e == nil {
		return false
	}
	switch e.Op {
	case "lit", "cap":
		return true
	case "call":
		return e.Name != "int" && e.Name != "float" || hasConcreteLeaf(e.Args[0])
	case "mread", "patlit":
		return false
	}
	for _, a := range e.Args {
		if hasConcreteLeaf(a) {
			return true
		}
	}
	return false
}

// PruneUnused removes declarations (consts, decorators) nothing refers to: an
// unused declaration is a compile error by design (C24).
func (g *G) PruneUnused() {
	usedDeco := map[string]bool{}
	usedConst := map[string]bool{}
	var walkE func(e *Expr)
	notePat := func(p *Pattern) {
		if p == nil {
			return
		}
		for _, t := range p.Toks {
			if t.Kind == "const" {
				usedConst[t.Lit] = true
			}
		}
	}
	walkE = func(e *Expr) {
		if e == nil {
			return
		}
		notePat(e.PatV)
		for _, a := range e.Args {
			walkE(a)
		}
	}
	var walk func(ss []*Stmt)
	walk = func(ss []*Stmt) {
		for _, s := range ss {
			if s.Op == "deco" {
				usedDeco[s.Deco] = true
			}
			notePat(s.Pat)
			walkE(s.E)
			for _, k := range s.Keys {
				walkE(k)
			}
			walk(s.Then)
			walk(s.Else)
		}
	}
	walk(g.P.Stmts)
	var ds []*DecoDef
	for _, d := range g.P.Decos {
		if usedDeco[d.Name] {
			ds = append(ds, d)
			walk(d.Body)
		}
	}
	g.P.Decos = ds
	var cs []*Const
	for _, c := range g.P.Consts {
		if usedConst[c.Name] {
			cs = append(cs, c)
		}
	}
	g.P.Consts = cs
}

// ---- lines

var (
	poolInt      = []string{"0", "1", "7", "42", "007", "3", "10", "2"}
	poolSint     = []string{"-3", "-1", "5", "0", "12"}
	poolFloat    = []string{"0.5", "3.25", "10.0", "2.50", "0.0"}
	poolWord     = []string{"a", "b", "foo", "Foo", "bar", "x1", "0", "12", "abc", "GET"}
	poolNonspace = []string{"a", "foo", "a-b", "x/y", "1.5", "Foo", "0", "id=7", "ab"}
	poolAbc      = []string{"a", "abc", "cab", "b", "cc"}
	poolTs       = []string{"20150724T10:14", "20160102T03:04", "20151345T99:99", "20150102T10:14", "20150102T10:14", "19991231T23:59"}
)

func (g *G) instTok(t PatTok, consts map[string]*Const) string {
	switch t.Kind {
	case "lit":
		return t.Lit
	case "int":
		return pick(g, "vint", poolInt)
	case "sint":
		return pick(g, "vsint", poolSint)
	case "float":
		return pick(g, "vfloat", poolFloat)
	case "word":
		return pick(g, "vword", poolWord)
	case "nonspace":
		return pick(g, "vnonspace", poolNonspace)
	case "abc":
		return pick(g, "vabc", poolAbc)
	case "ts":
		return pick(g, "vts", poolTs)
	case "const":
		if c := consts[t.Lit]; c != nil {
			return c.Inst
		}
	}
	return ""
}

// GenLine draws one input line.
func (g *G) GenLine() string {
	consts := g.P.ConstMap()
	inst := func() string {
		if len(g.Patterns) == 0 {
			return "foo"
		}
		p := pick(g, "linepat", g.Patterns)
		var sb strings.Builder
		for _, t := range p.Toks {
			sb.WriteString(g.instTok(t, consts))
		}
		return sb.String()
	}
	switch g.intn("linekind", 10) {
	case 0:
		return ""
	case 1:
		return pick(g, "soup", []string{"foo bar", "x 1 2.5 a", "GET id= 7 abc", "zzz", "err 0 0.0 -3"})
	case 2:
		// mutate an instance: drop or duplicate a token
		parts := strings.Split(inst(), " ")
		if len(parts) > 1 && g.chance("drop", 50) {
			i := g.intn("dropidx", len(parts))
			parts = append(parts[:i], parts[i+1:]...)
		} else {
			parts = append(parts, parts[0])
		}
		return strings.Join(parts, " ")
	case 3:
		return inst() + " " + inst()
	}
	return inst()
}
