// Package gen is the typed program generator G, its printer, the line
// generator and the reference interpreter R used by the language checks
// (C01, C02, C04, C05, C07, C19, C23, C24). It has its own AST, shares no code
// with mtail, and R is written from docs/Language.md (see DESIGN.md appendix A).
package gen

// Ty is a static type of G.
type Ty int

const (
	TInt Ty = iota
	TFloat
	TString
	TBool
)

func (t Ty) String() string { return [...]string{"Int", "Float", "String", "Bool"}[t] }

// Metric is a declaration.
type Metric struct {
	Name    string    `json:"name"`
	Kind    string    `json:"kind"` // counter gauge timer text
	Ty      Ty        `json:"ty"`
	Keys    []string  `json:"keys,omitempty"`
	Hidden  bool      `json:"hidden,omitempty"`
	As      string    `json:"as,omitempty"`
	Limit   int       `json:"limit,omitempty"`
	Buckets []float64 `json:"buckets,omitempty"`
}

// Exported returns the exported name.
func (m *Metric) Exported() string {
	if m.As != "" {
		return m.As
	}
	return m.Name
}

// PatTok is one token of a generated pattern.
type PatTok struct {
	Kind string `json:"kind"` // lit int sint float word nonspace abc const
	Lit  string `json:"lit,omitempty"`
	Name string `json:"name,omitempty"` // capture name; "" = unnamed group
	Num  int    `json:"num,omitempty"`  // capture group number (1-based) for capturing kinds
}

// Pattern is a regular expression built from tokens, optionally split into
// concatenated parts (`/a/ + CONST + /b/`).
type Pattern struct {
	ID     int      `json:"id"`
	Toks   []PatTok `json:"toks"`
	Anchor bool     `json:"anchor,omitempty"` // leading ^
	End    bool     `json:"end,omitempty"`    // trailing $
	Split  []int    `json:"split,omitempty"`  // token indexes where a new /.../ literal starts (printed with +)
}

// Expr is an expression node.
type Expr struct {
	Op    string   `json:"op"` // lit cap mread bin call match paren
	Ty    Ty       `json:"ty"`
	I     int64    `json:"i,omitempty"`
	F     float64  `json:"f,omitempty"`
	S     string   `json:"s,omitempty"`
	Name  string   `json:"name,omitempty"` // cap: capture name (or ""), call: function, bin: operator, mread: metric
	Num   int      `json:"num,omitempty"`  // cap: numeric reference
	Pat   int      `json:"pat,omitempty"`  // cap: pattern id; match: pattern id
	ByNum bool     `json:"bynum,omitempty"`
	Args  []*Expr  `json:"args,omitempty"`
	Neg   bool     `json:"neg,omitempty"` // match: !~
	PatV  *Pattern `json:"patv,omitempty"`
	Post  string   `json:"post,omitempty"` // mread: "++" or "--": the metric is incremented and the expression yields its new value
}

// Stmt is a statement node.
type Stmt struct {
	Op     string   `json:"op"`              // cond otherwise incr dec addassign assign del stop next deco
	Pat    *Pattern `json:"pat,omitempty"`   // cond: pattern part
	LogOp  string   `json:"logop,omitempty"` // cond: && or || between pattern and expression
	E      *Expr    `json:"e,omitempty"`     // cond: expression part / assign: rhs
	Then   []*Stmt  `json:"then,omitempty"`  // cond / otherwise / deco body
	Else   []*Stmt  `json:"else,omitempty"`  // cond
	HasEls bool     `json:"has_else,omitempty"`
	Metric string   `json:"metric,omitempty"`
	Keys   []*Expr  `json:"keys,omitempty"`
	After  string   `json:"after,omitempty"` // del ... after
	Deco   string   `json:"deco,omitempty"`
}

// Const is a pattern fragment.
type Const struct {
	Name string `json:"name"`
	Re   string `json:"re"`
	Inst string `json:"inst"` // a string matching Re
}

// DecoDef is a decorator definition.
type DecoDef struct {
	Name string  `json:"name"`
	Body []*Stmt `json:"body"`
}

// Program is a whole generated program.
type Program struct {
	Metrics []*Metric  `json:"metrics"`
	Consts  []*Const   `json:"consts,omitempty"`
	Decos   []*DecoDef `json:"decos,omitempty"`
	Stmts   []*Stmt    `json:"stmts"`
}

// FindMetric looks a declaration up by name.
func (p *Program) FindMetric(name string) *Metric {
	for _, m := range p.Metrics {
		if m.Name == name {
			return m
		}
	}
	return nil
}
