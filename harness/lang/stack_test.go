package lang

import "runtime"

func runtimeStack(buf []byte) int { return runtime.Stack(buf, false) }
