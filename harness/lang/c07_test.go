package lang

// C07 — Timestamps follow strptime/settime and default to processing time.

import (
	"encoding/json"
	"fmt"
	"strings"
	"testing"
	"time"

	"github.com/google/mtail/internal/metrics/datum"
	"github.com/google/mtail/internal/runtime/code"
	"github.com/google/mtail/verif/hx"
	"github.com/google/mtail/verif/vstat"
	"pgregory.net/rapid"
)

type c07Line struct {
	Kind string `json:"kind"` // A B (strptime with layout 1 / 2), T (both, layout 2 last), S (settime), N (no time call)
	V1   string `json:"v1,omitempty"`
	V2   string `json:"v2,omitempty"`
	N    int64  `json:"n,omitempty"`
}

type c07Case struct {
	L1, L2      string    `json:"-"`
	Layout1     string    `json:"layout1"`
	Layout2     string    `json:"layout2"`
	Zone        string    `json:"zone"` // "" (none), "UTC", "fixed:<seconds>", or a tz database name
	CurrentYear bool      `json:"current_year"`
	Lines       []c07Line `json:"lines"`
}

var c07Layouts = []string{
	time.RFC3339,
	"2006-01-02 15:04:05",
	"2006/01/02 15:04:05.000",
	"02/Jan/2006:15:04:05 -0700",
	"Jan _2 15:04:05",
	"Jan  2 15:04:05",
	time.ANSIC,
	"15:04:05",
	"20060102T150405",
	"2006-01-02T15:04:05",
	"2006-02-01T15:04:05",
	// the year as two digits
	time.RFC822Z,
	"060102 15:04:05",
	"06/01/02 15:04:05",
	"02-Jan-06 15:04:05",
}

func (c *c07Case) source() string {
	esc := func(s string) string { return strings.ReplaceAll(s, "\"", "\\\"") }
	return "gauge ts\ngauge v\ntext w\ngauge f\ncounter n\nhistogram hq buckets 1, 2\nhistogram hb buckets 1, 2\n" +
		"/^A (?P<d>.+)$/ {\n  strptime($d, \"" + esc(c.Layout1) + "\")\n  ts = timestamp()\n  v = 1\n  w = \"same\"\n  f = 0.5\n  hq = 1.5\n  hb = float(\"NaN\")\n  n++\n}\n" +
		"/^B (?P<e>.+)$/ {\n  strptime($e, \"" + esc(c.Layout2) + "\")\n  ts = timestamp()\n  v = 2\n  w = \"same\"\n  f = 0.5\n  hq = 1.5\n  hb = float(\"NaN\")\n  n++\n}\n" +
		"/^T (?P<d1>[^|]+)\\|(?P<d2>.+)$/ {\n  strptime($d1, \"" + esc(c.Layout1) + "\")\n  strptime($d2, \"" + esc(c.Layout2) + "\")\n  ts = timestamp()\n  v = 5\n  w = \"same\"\n  f = 0.5\n  hq = 1.5\n  hb = float(\"NaN\")\n  n++\n}\n" +
		"/^S (?P<n>-?\\d+)$/ {\n  settime($n)\n  ts = timestamp()\n  v = 3\n  w = \"same\"\n  f = 0.5\n  hq = 1.5\n  hb = float(\"NaN\")\n  n++\n}\n" +
		"/^N/ {\n  ts = timestamp()\n  v = 4\n  w = \"same\"\n  f = 0.5\n  hq = 1.5\n  hb = float(\"NaN\")\n  n++\n}\n"
}

func c07Loc(zone string) (*time.Location, error) {
	switch {
	case zone == "":
		return nil, nil
	case zone == "UTC":
		return time.UTC, nil
	case strings.HasPrefix(zone, "fixed:"):
		var s int
		fmt.Sscanf(zone, "fixed:%d", &s)
		return time.FixedZone("fz", s), nil
	}
	return time.LoadLocation(zone)
}

func c07Datum(obj *code.Object, name string) (val int64, timeNs int64, ok bool) {
	for _, m := range obj.Metrics {
		if m.Name == name && len(m.LabelValues) > 0 {
			d := m.LabelValues[0].Value
			return datum.GetInt(d), d.TimeUTC().UnixNano(), true
		}
	}
	return 0, 0, false
}

// c07Time returns the timestamp of the (scalar) datum of the named metric.
func c07Time(obj *code.Object, name string) (int64, bool) {
	for _, m := range obj.Metrics {
		if m.Name == name && len(m.LabelValues) > 0 {
			return m.LabelValues[0].Value.TimeUTC().UnixNano(), true
		}
	}
	return 0, false
}

func nsRepresentable(t time.Time) bool {
	return t.Year() >= 1679 && t.Year() <= 2261
}

type c07Res struct {
	nontrivial bool
	classes    []string
	skipped    string
}

func runC07(c c07Case) (*vstat.Failure, c07Res) {
	var res c07Res
	f := vstat.Catch(func() *vstat.Failure {
		var ff *vstat.Failure
		ff, res = runC07x(c)
		return ff
	})
	return f, res
}

func runC07x(c c07Case) (*vstat.Failure, c07Res) {
	var res c07Res
	loc, err := c07Loc(c.Zone)
	if err != nil {
		res.skipped = "zone not available: " + c.Zone
		return nil, res
	}
	src := c.source()
	const name = "c07.mtail"
	obj, err := hx.Compile(name, src)
	if err != nil {
		return vstat.Failf("compile-rejected", "template rejected: %v\n%s", err, src), res
	}
	v := hx.NewVM(name, obj, c.CurrentYear, loc)
	yearAtStart := time.Now().Year()
	parse := func(layout, value string) (time.Time, error) {
		var tm time.Time
		var err error
		if loc != nil {
			tm, err = time.ParseInLocation(layout, value, loc)
		} else {
			tm, err = time.Parse(layout, value)
		}
		if err != nil {
			return tm, err
		}
		if tm.Year() == 0 && c.CurrentYear {
			now := time.Now()
			if loc != nil {
				now = now.In(loc)
			}
			tm = tm.AddDate(now.Year(), 0, 0)
		}
		return tm, nil
	}
	seen := map[string]bool{}
	for i, l := range c.Lines {
		var text string
		switch l.Kind {
		case "A", "B":
			text = l.Kind + " " + l.V1
		case "T":
			text = "T " + l.V1 + "|" + l.V2
		case "S":
			text = fmt.Sprintf("S %d", l.N)
		default:
			text = "N now"
		}
		tsBefore, tsTimeBefore, _ := c07Datum(obj, "ts")
		vBefore, vTimeBefore, _ := c07Datum(obj, "v")
		e0 := hx.RuntimeErrors(name)
		t0 := time.Now()
		hx.Run(v, "f", text)
		t1 := time.Now()
		errs := hx.RuntimeErrors(name) - e0
		tsVal, tsTime, _ := c07Datum(obj, "ts")
		vVal, vTime, _ := c07Datum(obj, "v")
		where := fmt.Sprintf("line %d %q (layouts %q / %q, zone %q, current-year %v; earlier lines %d)", i, text, c.Layout1, c.Layout2, c.Zone, c.CurrentYear, i)

		expectInstant := func(want time.Time, what string) *vstat.Failure {
			if want.IsZero() {
				res.classes = append(res.classes, "reserved-zero-instant")
				return nil
			}
			if tsVal != want.Unix() {
				return vstat.Failf("timestamp-value:"+what, "%s: timestamp() = %d (%v), want %d (%v)", where, tsVal, time.Unix(tsVal, 0).UTC(), want.Unix(), want.UTC())
			}
			if nsRepresentable(want) {
				wT, _ := c07Time(obj, "w")
				fT, _ := c07Time(obj, "f")
				nT, _ := c07Time(obj, "n")
				hqT, _ := c07Time(obj, "hq")
				hbT, _ := c07Time(obj, "hb")
				for _, dt := range []struct {
					n string
					t int64
				}{{"ts", tsTime}, {"v", vTime}, {"w (text, same value every line)", wT}, {"f (float, same value every line)", fT}, {"n (counter)", nT}, {"hq (histogram)", hqT}, {"hb (histogram, observing NaN)", hbT}} {
					if dt.t != want.UnixNano() {
						return vstat.Failf("datum-stamp:"+what, "%s: datum %s carries %v, want %v", where, dt.n, time.Unix(0, dt.t).UTC(), want.UTC())
					}
				}
			} else {
				res.classes = append(res.classes, "datum-stamp-not-representable-in-int64-ns")
			}
			if d := want.Sub(time.Now()); d > 24*time.Hour || d < -24*time.Hour {
				res.nontrivial = true
			}
			return nil
		}
		failed := func(what string) *vstat.Failure {
			if errs != 1 {
				return vstat.Failf("failed-strptime-errors", "%s: %s cannot be parsed, yet %d runtime errors were raised", where, what, errs)
			}
			if tsVal != tsBefore || vVal != vBefore || tsTime != tsTimeBefore || vTime != vTimeBefore {
				return vstat.Failf("failed-strptime-has-effects", "%s: %s cannot be parsed, yet the line went on (ts %d->%d, v %d->%d)", where, what, tsBefore, tsVal, vBefore, vVal)
			}
			return nil
		}
		switch l.Kind {
		case "A", "B":
			layout := c.Layout1
			if l.Kind == "B" {
				layout = c.Layout2
			}
			key := l.V1
			if seen[key] {
				res.classes = append(res.classes, "repeated-value")
			}
			if seen["other:"+layout+key] {
				res.classes = append(res.classes, "same-value-under-two-layouts")
			}
			seen[key] = true
			for _, lay := range []string{c.Layout1, c.Layout2} {
				if lay != layout {
					seen["other:"+lay+key] = true
				}
			}
			want, perr := parse(layout, l.V1)
			if perr != nil {
				res.classes = append(res.classes, "failing-value")
				if f := failed(fmt.Sprintf("%q under %q", l.V1, layout)); f != nil {
					return f, res
				}
				continue
			}
			if errs != 0 {
				return vstat.Failf("unexpected-runtime-error", "%s: %d runtime errors: %s", where, errs, firstLineOf(v.RuntimeErrorString())), res
			}
			if want.Year() == 0 || (c.CurrentYear && strings.Contains(layout, "Jan") && !strings.Contains(layout, "2006")) {
				res.classes = append(res.classes, "zero-year")
			}
			if f := expectInstant(want, "strptime"); f != nil {
				return f, res
			}
		case "T":
			_, e1 := parse(c.Layout1, l.V1)
			want, e2 := parse(c.Layout2, l.V2)
			if e1 != nil || e2 != nil {
				if f := failed("one of the two values"); f != nil {
					return f, res
				}
				continue
			}
			if errs != 0 {
				return vstat.Failf("unexpected-runtime-error", "%s: %d runtime errors: %s", where, errs, firstLineOf(v.RuntimeErrorString())), res
			}
			res.classes = append(res.classes, "two-strptime-calls")
			if f := expectInstant(want, "second-strptime"); f != nil {
				return f, res
			}
		case "S":
			if errs != 0 {
				return vstat.Failf("unexpected-runtime-error", "%s: %d runtime errors: %s", where, errs, firstLineOf(v.RuntimeErrorString())), res
			}
			if f := expectInstant(time.Unix(l.N, 0).UTC(), "settime"); f != nil {
				return f, res
			}
		default:
			if errs != 0 {
				return vstat.Failf("unexpected-runtime-error", "%s: %d runtime errors", where, errs), res
			}
			if tsVal < t0.Unix() || tsVal > t1.Unix() {
				return vstat.Failf("default-timestamp", "%s: timestamp() = %d (%v) outside the processing interval [%d,%d]", where, tsVal, time.Unix(tsVal, 0).UTC(), t0.Unix(), t1.Unix()), res
			}
			wT, _ := c07Time(obj, "w")
			fT, _ := c07Time(obj, "f")
			nT, _ := c07Time(obj, "n")
			hqT, _ := c07Time(obj, "hq")
			hbT, _ := c07Time(obj, "hb")
			for _, dt := range []int64{tsTime, vTime, wT, fT, nT, hqT, hbT} {
				if dt < t0.UnixNano() || dt > t1.UnixNano() {
					return vstat.Failf("default-datum-stamp", "%s: datum carries %v, outside the processing interval [%v,%v]", where, time.Unix(0, dt).UTC(), t0.UTC(), t1.UTC()), res
				}
			}
			res.classes = append(res.classes, "no-time-call")
		}
		if vVal != map[string]int64{"A": 1, "B": 2, "T": 5, "S": 3, "N": 4}[l.Kind] {
			return vstat.Failf("line-not-completed", "%s: v = %d", where, vVal), res
		}
	}
	if time.Now().Year() != yearAtStart {
		res.skipped = "year changed during the case"
		return nil, c07Res{skipped: res.skipped}
	}
	return nil, res
}

func TestC07(t *testing.T) {
	st := vstat.New("C07", "template programs with strptime (one of two layouts per line, or both), settime and timestamp(), writing a gauge, a text, a float, a counter and two histograms (one observing NaN) on every line, layouts from a family of Go reference layouts, values made by formatting random instants (1970-2200, plus yearless) with the layout, corrupted variants, and repeats across lines and across the two layouts, now and then 64-160 lines with distinct timestamps between two lines that carry the same one; override zone in {none, UTC, fixed offsets, tz names} x syslog-current-year on/off; expected instants computed with the Go standard library independently of earlier lines; non-trivial = a successful strptime/settime whose instant is more than a day from now; distinct by the whole case")
	st.Assumptions = []string{"the statement defines the result by time.Parse / time.ParseInLocation; the harness calls them directly", "datum stamps are compared only for instants representable in int64 nanoseconds (1679-2261); the reserved zero instant is skipped", "wall-clock results are bracketed by reads before and after the line"}
	runRaw := func(raw json.RawMessage) *vstat.Failure {
		c, err := vstat.JSON[c07Case](raw)
		if err != nil {
			return vstat.Failf("bad-replay", "%v", err)
		}
		f, _ := runC07(c)
		return f
	}
	st.Run(t, runRaw, func() {
		zones := []string{"", "", "UTC", "fixed:18000", "fixed:-12600", "fixed:3600", "America/New_York", "Asia/Kolkata"}
		st.Check(t, func(rt *rapid.T) {
			var c c07Case
			defer st.Guard(func() any { return c })
			c.Layout1 = rapid.SampledFrom(c07Layouts).Draw(rt, "l1")
			c.Layout2 = rapid.SampledFrom(c07Layouts).Draw(rt, "l2")
			if rapid.IntRange(0, 3).Draw(rt, "pairlay") == 0 {
				c.Layout1, c.Layout2 = "2006-01-02T15:04:05", "2006-02-01T15:04:05"
			}
			c.Zone = rapid.SampledFrom(zones).Draw(rt, "zone")
			c.CurrentYear = rapid.Bool().Draw(rt, "cy")
			loc, lerr := c07Loc(c.Zone)
			if lerr != nil {
				c.Zone = "fixed:7200"
				loc, _ = c07Loc(c.Zone)
			}
			n := rapid.IntRange(1, 8).Draw(rt, "nlines")
			var pool []string
			mkval := func(layout string) string {
				if len(pool) > 0 && rapid.IntRange(0, 2).Draw(rt, "reuse") == 0 {
					return rapid.SampledFrom(pool).Draw(rt, "pv")
				}
				sec := rapid.Int64Range(0, 7258118400).Draw(rt, "instant")
				if rapid.IntRange(0, 3).Draw(rt, "smallday") == 0 {
					// days <= 12 so that day/month-swapped layouts both parse
					tt := time.Unix(sec, 0).UTC()
					tt = time.Date(tt.Year(), time.Month(1+tt.Day()%12), 1+int(tt.Month())%12, tt.Hour(), tt.Minute(), tt.Second(), 0, time.UTC)
					sec = tt.Unix()
				}
				tt := time.Unix(sec, int64(rapid.IntRange(0, 999).Draw(rt, "ms"))*1e6)
				// the value's own zone is independent of the override zone: layouts with
				// zone information carry their offset in the text
				switch rapid.IntRange(0, 3).Draw(rt, "valuezone") {
				case 0:
					tt = tt.UTC()
				case 1:
					tt = tt.In(time.FixedZone("", rapid.SampledFrom([]int{3600, -7200, 19800, -34200}).Draw(rt, "voff")))
				default:
					if loc != nil {
						tt = tt.In(loc)
					} else {
						tt = tt.UTC()
					}
				}
				s := tt.Format(layout)
				switch rapid.IntRange(0, 9).Draw(rt, "corrupt") {
				case 0:
					if len(s) > 2 {
						s = s[:len(s)-2]
					}
				case 1:
					s = strings.Replace(s, "1", "x", 1)
				case 2:
					s = "99" + s
				}
				pool = append(pool, s)
				return s
			}
			for i := 0; i < n; i++ {
				var l c07Line
				switch rapid.IntRange(0, 9).Draw(rt, "kind") {
				case 0, 1, 2:
					l = c07Line{Kind: "A", V1: mkval(c.Layout1)}
				case 3, 4, 5:
					l = c07Line{Kind: "B", V1: mkval(rapid.SampledFrom([]string{c.Layout1, c.Layout2}).Draw(rt, "bl"))}
				case 6:
					l = c07Line{Kind: "T", V1: mkval(c.Layout1), V2: mkval(c.Layout2)}
					if strings.Contains(l.V1, "|") || strings.Contains(l.V2, "|") {
						l = c07Line{Kind: "N"}
					}
				case 7, 8:
					l = c07Line{Kind: "S", N: rapid.SampledFrom([]int64{0, 1, 1000000000, 1700000000, -1, -1000000000, 4000000000, 253402300799, 86400}).Draw(rt, "n")}
				default:
					l = c07Line{Kind: "N"}
				}
				c.Lines = append(c.Lines, l)
			}
			if rapid.IntRange(0, 11).Draw(rt, "longrun") == 0 {
				// a long stretch of distinct timestamps between two lines that carry
				// the same one (a source delivered again, interleaved sources): more
				// distinct values than any conversion cache is likely to hold
				var first *c07Line
				for i := range c.Lines {
					if c.Lines[i].Kind == "A" {
						first = &c.Lines[i]
						break
					}
				}
				if first != nil {
					base := time.Unix(1600000000, 0).UTC()
					nrun := rapid.IntRange(64, 160).Draw(rt, "nrun")
					for k := 0; k < nrun; k++ {
						c.Lines = append(c.Lines, c07Line{Kind: "A", V1: base.Add(time.Duration(k) * 61 * time.Minute).Format(c.Layout1)})
					}
					c.Lines = append(c.Lines, *first)
					st.Class("long-run-of-distinct-timestamps-then-a-repeat")
				}
			}
			f, res := runC07(c)
			st.Eval()
			if res.skipped != "" {
				st.Class("skipped: " + res.skipped)
			}
			for _, k := range res.classes {
				st.Class(k)
			}
			st.Class("zone:" + c.Zone)
			if res.nontrivial {
				b, _ := json.Marshal(c)
				st.NonTrivial(string(b), c)
			}
			st.Report(rt, f, c)
		})
	})
}
