package lang

// C04 — Accepted programs never fault inside the VM.

import (
	"encoding/json"
	"fmt"
	"regexp"
	"strings"
	"testing"
	"time"

	"github.com/google/mtail/internal/metrics"
	"github.com/google/mtail/internal/runtime/code"
	"github.com/google/mtail/verif/gen"
	"github.com/google/mtail/verif/hx"
	"github.com/google/mtail/verif/vstat"
	"pgregory.net/rapid"
)

type c04Case struct {
	Src   vstat.Q   `json:"src"`
	Lines []vstat.Q `json:"lines"`
}

// verifyObject is the static bytecode verifier: jump targets, operand ranges
// and Go types, and no possible pop from an empty stack.
func verifyObject(obj *code.Object) *vstat.Failure {
	n := len(obj.Program)
	isInt := func(v any) (int, bool) { i, ok := v.(int); return i, ok }
	type eff struct{ pop, push int }
	effect := func(in code.Instr) (eff, *vstat.Failure) {
		switch in.Opcode {
		case code.Stop, code.Setmatched, code.Jmp:
			return eff{0, 0}, nil
		case code.Match, code.Timestamp, code.Str, code.Push, code.Mload, code.Otherwise, code.Getfilename:
			return eff{0, 1}, nil
		case code.Smatch, code.Capref, code.Neg, code.Not, code.Iget, code.Fget, code.Sget, code.Tolower, code.Length, code.S2f, code.I2f, code.I2s, code.F2s:
			return eff{1, 1}, nil
		case code.Cmp, code.Icmp, code.Fcmp, code.Scmp, code.Iadd, code.Isub, code.Imul, code.Idiv, code.Imod, code.Ipow, code.And, code.Or, code.Xor, code.Shl, code.Shr,
			code.Fadd, code.Fsub, code.Fmul, code.Fdiv, code.Fmod, code.Fpow, code.Cat:
			return eff{2, 1}, nil
		case code.Jnm, code.Jm, code.Settime:
			return eff{1, 0}, nil
		case code.Inc, code.Dec:
			if in.Operand != nil {
				return eff{2, 1}, nil
			}
			return eff{1, 1}, nil
		case code.Iset, code.Fset, code.Sset, code.Strptime:
			return eff{2, 0}, nil
		case code.S2i:
			if in.Operand != nil {
				return eff{2, 1}, nil
			}
			return eff{1, 1}, nil
		case code.Dload:
			k, ok := isInt(in.Operand)
			if !ok || k < 0 {
				return eff{}, vstat.Failf("verifier:operand-type", "dload operand %T %v", in.Operand, in.Operand)
			}
			return eff{1 + k, 1}, nil
		case code.Del:
			k, ok := isInt(in.Operand)
			if !ok || k < 0 {
				return eff{}, vstat.Failf("verifier:operand-type", "del operand %T %v", in.Operand, in.Operand)
			}
			return eff{1 + k, 0}, nil
		case code.Expire:
			k, ok := isInt(in.Operand)
			if !ok || k < 0 {
				return eff{}, vstat.Failf("verifier:operand-type", "expire operand %T %v", in.Operand, in.Operand)
			}
			return eff{2 + k, 0}, nil
		case code.Subst:
			return eff{3, 1}, nil
		case code.Rsubst:
			return eff{3, 1}, nil
		}
		return eff{}, vstat.Failf("verifier:unknown-opcode", "opcode %v has no VM semantics", in.Opcode)
	}
	// operand checks
	for pc, in := range obj.Program {
		switch in.Opcode {
		case code.Jmp, code.Jm, code.Jnm:
			t, ok := isInt(in.Operand)
			if !ok || t < 0 || t > n {
				return vstat.Failf("verifier:jump-target", "pc %d %v: target %v outside [0,%d]", pc, in.Opcode, in.Operand, n)
			}
		case code.Match, code.Smatch:
			i, ok := isInt(in.Operand)
			if !ok || i < 0 || i >= len(obj.Regexps) {
				return vstat.Failf("verifier:regexp-index", "pc %d %v: regexp index %v, have %d", pc, in.Opcode, in.Operand, len(obj.Regexps))
			}
		case code.Str:
			i, ok := isInt(in.Operand)
			if !ok || i < 0 || i >= len(obj.Strings) {
				return vstat.Failf("verifier:string-index", "pc %d: string index %v, have %d", pc, in.Operand, len(obj.Strings))
			}
		case code.Mload:
			i, ok := isInt(in.Operand)
			if !ok || i < 0 || i >= len(obj.Metrics) {
				return vstat.Failf("verifier:metric-index", "pc %d: metric index %v, have %d", pc, in.Operand, len(obj.Metrics))
			}
			// the following dload/del/expire must carry the metric's arity
			if pc+1 < n {
				nx := obj.Program[pc+1]
				if nx.Opcode == code.Dload || nx.Opcode == code.Del || nx.Opcode == code.Expire {
					if k, ok := isInt(nx.Operand); ok && k != len(obj.Metrics[i].Keys) {
						return vstat.Failf("verifier:key-arity", "pc %d: %v with %d keys on metric %s that has %d", pc+1, nx.Opcode, k, obj.Metrics[i].Name, len(obj.Metrics[i].Keys))
					}
				}
			}
		case code.Capref:
			if _, ok := isInt(in.Operand); !ok {
				return vstat.Failf("verifier:operand-type", "pc %d capref operand %T", pc, in.Operand)
			}
		case code.Cmp, code.Icmp, code.Fcmp, code.Scmp:
			if c, ok := isInt(in.Operand); !ok || c < -1 || c > 1 {
				return vstat.Failf("verifier:operand-type", "pc %d compare operand %T %v", pc, in.Operand, in.Operand)
			}
		case code.Setmatched:
			if _, ok := in.Operand.(bool); !ok {
				return vstat.Failf("verifier:operand-type", "pc %d setmatched operand %T", pc, in.Operand)
			}
		}
	}
	// minimal stack depth by forward propagation
	const unk = -1
	depth := make([]int, n+1)
	for i := range depth {
		depth[i] = unk
	}
	depth[0] = 0
	work := []int{0}
	set := func(pc, d int) {
		if pc > n {
			return
		}
		if depth[pc] == unk || d < depth[pc] {
			depth[pc] = d
			work = append(work, pc)
		}
	}
	for len(work) > 0 {
		pc := work[len(work)-1]
		work = work[:len(work)-1]
		if pc >= n {
			continue
		}
		in := obj.Program[pc]
		e, f := effect(in)
		if f != nil {
			return f
		}
		d := depth[pc]
		if d < e.pop {
			return vstat.Failf(fmt.Sprintf("verifier:stack-underflow@%v", in.Opcode), "pc %d %v pops %d with possibly only %d on the stack", pc, in, e.pop, d)
		}
		nd := d - e.pop + e.push
		switch in.Opcode {
		case code.Stop:
		case code.Jmp:
			set(in.Operand.(int), nd)
		case code.Jm, code.Jnm:
			set(in.Operand.(int), nd)
			set(pc+1, nd)
		default:
			set(pc+1, nd)
		}
	}
	return nil
}

var (
	c04Allowed = []*regexp.Regexp{
		regexp.MustCompile(`conversion of ".*" to (int|float) failed`),
		regexp.MustCompile(`^strconv\.Parse(Int|Float): parsing`),
		regexp.MustCompile(`^cannot compare .* with string`),
		regexp.MustCompile(`^cannot compare string`),
		regexp.MustCompile(`^strptime \(.*\) failed`),
		regexp.MustCompile(`^Divide by zero`),
		regexp.MustCompile(`^shift int out of range`),
		regexp.MustCompile(`^int32 out of range`),
		regexp.MustCompile(`^int32 index out of range`),
		regexp.MustCompile(`^Not enough capture groups matched`),
		regexp.MustCompile(`^No datum for given labelvalues`),
	}
	reQuoted = regexp.MustCompile(`"[^"]*"|%!q\([^)]*\)|0x[0-9a-f]+|[-+]?\d+(\.\d+)?(e[-+]?\d+)?`)
)

// classifyRuntimeError returns "" for a checked condition of the statement's
// list and otherwise a signature for the internal fault.
var reInstr = regexp.MustCompile(`Error occurred at instruction \d+ \{(\w+),`)

func classifyRuntimeError(msg string) string {
	where := ""
	if m := reInstr.FindStringSubmatch(msg); m != nil {
		switch m[1] {
		case "iset", "inc", "dec":
			where = "@int-store"
		case "fset":
			where = "@float-store"
		case "sset":
			where = "@string-store"
		default:
			where = "@" + m[1]
		}
	}
	first := strings.SplitN(msg, "\n", 2)[0]
	first = strings.TrimPrefix(first, "+")
	for _, re := range c04Allowed {
		if re.MatchString(first) {
			return ""
		}
	}
	// strip the data to get a root-cause signature; of a datum of the wrong type
	// keep what it is (a histogram's buckets, or a scalar) and what was wanted
	if i := strings.Index(first, "datum &{"); i > 0 {
		kind := "scalar"
		if strings.Contains(first[i:], "[{{") || strings.Contains(first[i:], "] 0 0}") {
			kind = "buckets"
		}
		want := ""
		if j := strings.LastIndex(first, " is not a"); j > i {
			want = first[j:]
		}
		first = first[:i] + "datum(" + kind + ")" + want
	}
	if i := strings.Index(first, "&{"); i > 0 {
		first = first[:i]
	}
	s := reQuoted.ReplaceAllString(first, "_")
	if len(s) > 80 {
		s = s[:80]
	}
	if strings.HasPrefix(first, "panic in thread") {
		if i := strings.LastIndex(first, ": "); i > 0 {
			s = "panic: " + reQuoted.ReplaceAllString(first[i+2:], "_")
		}
	}
	return "vm-fault" + where + ": " + s
}

type c04Res struct {
	accepted bool
	executed bool
	rtErrors int
}

func runC04(c c04Case) (*vstat.Failure, c04Res) {
	var res c04Res
	f := vstat.Catch(func() *vstat.Failure {
		var ff *vstat.Failure
		ff, res = runC04x(c)
		return ff
	})
	return f, res
}

func runC04x(c c04Case) (*vstat.Failure, c04Res) {
	var res c04Res
	const name = "c04.mtail"
	o, done := compileWithDeadline(string(c.Src), 20*time.Second)
	if !done || o.panic != nil || o.obj == nil {
		return nil, res // C03's business
	}
	res.accepted = true
	obj := o.obj
	if f := verifyObject(obj); f != nil {
		f.Msg += "\n--- program\n" + string(c.Src)
		return f, res
	}
	v := hx.NewVM(name, obj, false, nil)
	for i, l := range c.Lines {
		e0 := hx.RuntimeErrors(name)
		before := v.RuntimeErrorString()
		done := make(chan any, 1)
		go func() {
			defer func() { done <- recover() }()
			hx.Run(v, "/var/log/x.log", string(l))
		}()
		select {
		case p := <-done:
			if p != nil {
				return vstat.Failf("vm-panic", "line %d %q: panic %v\n--- program\n%s", i, l, p, c.Src), res
			}
		case <-time.After(20 * time.Second):
			return vstat.Failf("vm-hangs", "line %d (%d bytes) did not finish within 20s\n--- program\n%s", i, len(l), c.Src), res
		}
		res.executed = true
		if d := hx.RuntimeErrors(name) - e0; d > 0 {
			res.rtErrors += int(d)
			msg := v.RuntimeErrorString()
			if msg == before && d > 0 {
				// same text as last time is fine; classify anyway
			}
			if sig := classifyRuntimeError(msg); sig != "" {
				return vstat.Failf(sig, "line %d %q: %s\n--- program\n%s", i, l, strings.SplitN(msg, "Full input text", 2)[0], c.Src), res
			}
		}
	}
	_ = metrics.Int
	return nil, res
}

var c04HostileLines = []string{"", " ", strings.Repeat("a", 5000), "\xff\xfe", "9223372036854775807", "-9223372036854775808", "99999999999999999999", "NaN", "+Inf", "-Inf", "0x10", "1e400", "foo \x00 bar", "0", "-0", "1.5", "007", "a b c d e f g", "中文 日本語", "%s %d %!v"}

func c04Lines(rt *rapid.T, g *gen.G, n int) []vstat.Q {
	var out []vstat.Q
	for i := 0; i < n; i++ {
		if rapid.IntRange(0, 4).Draw(rt, "hostile") == 0 {
			out = append(out, vstat.Q(rapid.SampledFrom(c04HostileLines).Draw(rt, "hline")))
		} else if g != nil {
			l := g.GenLine()
			if rapid.IntRange(0, 5).Draw(rt, "inject") == 0 {
				// put a hostile token where a value would be
				parts := strings.Split(l, " ")
				parts[rapid.IntRange(0, len(parts)-1).Draw(rt, "ipos")] = rapid.SampledFrom(c04HostileLines).Draw(rt, "itok")
				l = strings.Join(parts, " ")
			}
			out = append(out, vstat.Q(l))
		} else {
			out = append(out, vstat.Q(rapid.SampledFrom([]string{"foo bar", "GET /index.html 200 1234", "Jan  2 15:04:05 host prog[123]: message 42", "2024-01-02T15:04:05Z x=1 y=2.5", "a 1 b 2 c 3"}).Draw(rt, "cline")))
		}
	}
	return out
}

func TestC04(t *testing.T) {
	st := vstat.New("C04", "compiler-accepted programs from three sources: the typed grammar G with every feature on (incl. constructs C01 leaves out: unary ~, String-vs-number comparisons, non-Bool conditions, mixed-type metric writes, time builtins), token-level mutants of the repository's example programs and of G programs that still compile, and the example programs themselves; lines from the programs' own patterns plus hostile ones (empty, 70 KB, invalid UTF-8, numeric extremes, NaN/Inf, hex). Oracles: static bytecode verifier (jump targets, operand ranges/types, key arity, no possible stack underflow) and execution with every runtime error classified against the statement's list of checked conditions. non-trivial = an accepted program with at least one executed line; distinct by (source, lines)")
	st.Assumptions = []string{"allowed runtime errors: failed string-to-number conversion (incl. inside a comparison), failed strptime, integer division by zero, shift/base/index out of range, capture group of an unmatched pattern, missing datum for a delayed delete; anything else is an internal fault", "the verifier's stack analysis takes the minimum depth over paths"}
	runRaw := func(raw json.RawMessage) *vstat.Failure {
		c, err := vstat.JSON[c04Case](raw)
		if err != nil {
			return vstat.Failf("bad-replay", "%v", err)
		}
		f, _ := runC04(c)
		return f
	}
	st.Run(t, runRaw, func() {
		var corpus []string
		for _, p := range loadCorpus() {
			if len(p) <= 8192 { // C04 is about accepted programs; the one oversized stress file belongs to C03
				corpus = append(corpus, p)
			}
		}
		// the corpus itself, unmutated, with hostile lines
		shard, _ := vstat.Shard()
		if shard == 0 {
			for _, p := range corpus {
				c := c04Case{Src: vstat.Q(p)}
				for _, l := range c04HostileLines {
					c.Lines = append(c.Lines, vstat.Q(l))
				}
				f, res := runC04(c)
				st.Eval()
				if res.accepted {
					st.Class("corpus-program")
					st.NonTrivial(p, nil)
				}
				if f != nil {
					st.Violate(t, f, c, "corpus")
					if t.Failed() {
						return
					}
				}
			}
		}
		// operator grid: every binary operator on captured operands of every
		// numeric type pairing, over a grid of extreme and ordinary values (the
		// only runtime errors allowed are the statement's checked conditions)
		if shard == 0 {
			ints := []string{"0", "1", "-1", "2", "-2", "3", "7", "63", "64", "65", "-64", "9223372036854775807", "-9223372036854775808"}
			floats := []string{"0.0", "1.0", "-1.0", "0.5", "-2.5", "64.0", "-64.0", "1000000000000000000000.0", "0.000001"}
			arith := []string{"+", "-", "*", "/", "%", "**", "<<", ">>", "&", "|", "^"}
			cmp := []string{"<", "<=", ">", ">=", "==", "!="}
			type side struct{ re, ref string }
			iS, fS := side{`(-?\d+)`, "int"}, side{`(-?\d+\.\d+)`, "float"}
			for _, pair := range [][2]side{{iS, iS}, {fS, fS}, {iS, fS}, {fS, iS}} {
				var lines []vstat.Q
				lv, rv := ints, ints
				if pair[0].ref == "float" {
					lv = floats
				}
				if pair[1].ref == "float" {
					rv = floats
				}
				for _, a := range lv {
					for _, b := range rv {
						lines = append(lines, vstat.Q(a+" "+b))
					}
				}
				for _, op := range append(append([]string{}, arith...), cmp...) {
					isCmp := strings.ContainsAny(op, "<>=!") && op != "<<" && op != ">>"
					if !isCmp && (op == "<<" || op == ">>" || op == "&" || op == "|" || op == "^") && (pair[0].ref == "float" || pair[1].ref == "float") {
						continue // bitwise operators on floats: open finding C04-6, covered by its probe
					}
					var src string
					if isCmp {
						src = "counter n\n/^" + pair[0].re + " " + pair[1].re + "$/ && $1 " + op + " $2 {\n  n++\n}\n"
					} else {
						src = "gauge x\n/^" + pair[0].re + " " + pair[1].re + "$/ {\n  x = $1 " + op + " $2\n}\n"
					}
					c := c04Case{Src: vstat.Q(src), Lines: lines}
					f, res := runC04(c)
					st.Eval()
					st.Class("operator-grid")
					if res.accepted {
						st.NonTrivial(src, c04Case{Src: vstat.Q(src), Lines: lines[:3]})
					}
					if f != nil {
						st.Violate(t, f, c, "operator-grid")
						if t.Failed() {
							return
						}
					}
				}
			}
		}
		feats := gen.AllFeatures()
		feats.MixedWrites, feats.StringNumberCompare, feats.NonBoolCond, feats.Unary, feats.TimeBuiltins = true, true, true, true, true
		feats.IncAsValue = true
		feats.BoolInArith = true
		feats.Histograms, feats.HistIncr = true, true
		live17 := st.IsLive("C04-1")
		if live17 {
			feats.NoFloatIntoInt = true
		}
		if st.IsLive("C04-7") {
			feats.HistIncr = false
		}
		liveNeg := st.IsLive("C04-4")
		if liveNeg {
			feats.NoUnaryOnBool = true
		}
		st.Check(t, func(rt *rapid.T) {
			var c c04Case
			defer st.Guard(func() any { return c })
			var g *gen.G
			src := ""
			switch rapid.IntRange(0, 3).Draw(rt, "source") {
			case 0, 1:
				g = gen.GenProgram(rt, feats)
				src = g.P.Source()
				st.Class("source:G")
			case 2:
				g = gen.GenProgram(rt, feats)
				src = mutateTokens(rt, g.P.Source())
				st.Class("source:G-mutant")
			default:
				base := rapid.SampledFrom(corpus).Draw(rt, "corpus")
				src = mutateTokens(rt, base)
				st.Class("source:corpus-mutant")
			}
			c.Src = vstat.Q(src)
			c.Lines = c04Lines(rt, g, rapid.IntRange(1, 8).Draw(rt, "nlines"))
			if live17 {
				st.Excluded("C04-1")
			}
			if liveNeg {
				st.Excluded("C04-4")
			}
			f, res := runC04(c)
			st.Eval()
			if res.accepted {
				st.Class("accepted")
				if res.executed {
					b, _ := json.Marshal(c)
					st.NonTrivial(string(b), c)
				}
				if res.rtErrors > 0 {
					st.Class("has-allowed-runtime-error")
				}
			} else {
				st.Class("rejected")
			}
			st.Report(rt, f, c)
		})
	})
}

// mutateTokens applies 1-2 token-level mutations that tend to keep a program compilable.
func mutateTokens(rt *rapid.T, base string) string {
	toks := splitTokens(base)
	repl := map[string][]string{
		"+": {"-", "*", "/", "%", "**", "<<", "|"}, "-": {"+", "*"}, "*": {"+", "/", "**"}, "<": {"<=", ">", "==", "!="}, ">": {"<", ">=", "=="}, "==": {"!=", "<"},
		"&&": {"||"}, "||": {"&&"}, "++": {"--"}, "=": {"+="}, "+=": {"="}, "counter": {"gauge", "timer"}, "gauge": {"counter", "timer", "text"},
	}
	n := rapid.IntRange(1, 2).Draw(rt, "nmut")
	for m := 0; m < n && len(toks) > 2; m++ {
		i := rapid.IntRange(0, len(toks)-1).Draw(rt, "mi")
		switch rapid.IntRange(0, 4).Draw(rt, "mut") {
		case 0, 1:
			// operator / keyword swap at the nearest swappable token
			for k := 0; k < len(toks); k++ {
				j := (i + k) % len(toks)
				if alts, ok := repl[toks[j]]; ok {
					toks[j] = rapid.SampledFrom(alts).Draw(rt, "alt")
					break
				}
			}
		case 2:
			// replace a number or capture reference by another operand
			for k := 0; k < len(toks); k++ {
				j := (i + k) % len(toks)
				if len(toks[j]) > 0 && (toks[j][0] >= '0' && toks[j][0] <= '9' || toks[j][0] == '$') {
					toks[j] = rapid.SampledFrom([]string{"0", "1", "-1", "1.5", "\"s\"", "$1", "9223372036854775807", "timestamp()", "len(\"x\")"}).Draw(rt, "operand")
					break
				}
			}
		case 3:
			// duplicate a whole line
			lines := strings.Split(strings.Join(toks, ""), "\n")
			li := rapid.IntRange(0, len(lines)-1).Draw(rt, "dupline")
			lines = append(lines[:li+1], lines[li:]...)
			toks = splitTokens(strings.Join(lines, "\n"))
		case 4:
			// delete a whole line
			lines := strings.Split(strings.Join(toks, ""), "\n")
			if len(lines) > 2 {
				li := rapid.IntRange(0, len(lines)-1).Draw(rt, "delline")
				lines = append(lines[:li], lines[li+1:]...)
			}
			toks = splitTokens(strings.Join(lines, "\n"))
		}
	}
	return strings.Join(toks, "")
}

var _ = fmt.Sprint
