package lang

// C03 — The compiler terminates on any source text and never crashes.

import (
	"encoding/json"
	"fmt"
	"os"
	"path/filepath"
	"regexp"
	"sort"
	"strings"
	"testing"
	"time"

	"github.com/google/mtail/internal/runtime/code"
	"github.com/google/mtail/verif/gen"
	"github.com/google/mtail/verif/hx"
	"github.com/google/mtail/verif/vstat"
	"pgregory.net/rapid"
)

type c03Case struct {
	Src   vstat.Q `json:"src"`
	NoDet bool    `json:"no_determinism_check,omitempty"` // constructed shapes: one compile only
	Reps  int     `json:"reps,omitempty"`                 // further compiles that must all give the first one's result (0: one further compile)
}

// dumpObject renders everything a compile produces, canonically.
func dumpObject(obj *code.Object) string {
	var sb strings.Builder
	for i, in := range obj.Program {
		fmt.Fprintf(&sb, "%d %v %T:%v @%d\n", i, in.Opcode, in.Operand, in.Operand, in.SourceLine)
	}
	for i, s := range obj.Strings {
		fmt.Fprintf(&sb, "str %d %q\n", i, s)
	}
	for i, r := range obj.Regexps {
		fmt.Fprintf(&sb, "re %d %q\n", i, r.String())
	}
	for i, m := range obj.Metrics {
		fmt.Fprintf(&sb, "metric %d %s\n", i, hx.DumpMetric(m, hx.DumpOpts{Order: true, Source: true}))
		fmt.Fprintf(&sb, "  buckets %v\n", m.Buckets)
	}
	return sb.String()
}

type compileOut struct {
	obj   *code.Object
	err   error
	panic any
	stack string
}

func compileWithDeadline(src string, d time.Duration) (compileOut, bool) {
	ch := make(chan compileOut, 1)
	go func() {
		var out compileOut
		defer func() {
			if r := recover(); r != nil {
				out.panic = r
				out.stack = string(stackTrace())
			}
			ch <- out
		}()
		out.obj, out.err = hx.Compile("c03.mtail", src)
	}()
	select {
	case o := <-ch:
		return o, true
	case <-time.After(d):
		return compileOut{}, false
	}
}

func stackTrace() []byte {
	buf := make([]byte, 8192)
	n := runtimeStack(buf)
	return buf[:n]
}

type c03Res struct {
	class string
	hang  bool
}

func runC03(c c03Case) (*vstat.Failure, c03Res) {
	src := string(c.Src)
	var res c03Res
	// inputs up to 16 KiB must compile within 10 s (typical: milliseconds); the
	// few larger stress shapes (nesting depth 5000) get a budget that allows for
	// the parser's super-linear but bounded cost
	// (deep nesting costs more than linear time: 4000 nested '~' take seconds,
	// and several times that on a loaded machine; the deadline only has to tell
	// termination from a hang)
	deadline := 120 * time.Second
	if len(src) > 16384 {
		deadline = 600 * time.Second
	}
	o, done := compileWithDeadline(src, deadline)
	if !done {
		res.hang = true
		return vstat.Failf("compile-does-not-terminate", "compiling a %d byte source did not finish within %v", len(src), deadline), res
	}
	if o.panic != nil {
		return vstat.Failf("compile-panics", "panic: %v\n%s", o.panic, o.stack), res
	}
	switch {
	case o.obj != nil && o.err != nil:
		return vstat.Failf("both-object-and-errors", "Compile returned code and errors: %v", o.err), res
	case o.obj == nil && o.err == nil:
		return vstat.Failf("neither-object-nor-errors", "Compile returned neither code nor errors"), res
	case o.err != nil && strings.TrimSpace(o.err.Error()) == "":
		return vstat.Failf("empty-error-list", "Compile returned an error with no text"), res
	}
	// determinism
	if c.NoDet {
		o2 := o
		_ = o2
		if o.obj != nil {
			res.class = "accepted"
		} else {
			res.class = c03ErrClass(o.err.Error())
		}
		return nil, res
	}
	for rep := 0; rep < max(c.Reps, 1); rep++ {
		o2, done := compileWithDeadline(src, deadline)
		if !done {
			res.hang = true
			return vstat.Failf("compile-does-not-terminate", "second compile of the same source did not finish"), res
		}
		if o2.panic != nil {
			return vstat.Failf("compile-panics", "second compile panics: %v", o2.panic), res
		}
		if (o.obj == nil) != (o2.obj == nil) {
			return vstat.Failf("nondeterministic-verdict", "first compile accepted=%v, compile %d accepted=%v", o.obj != nil, rep+2, o2.obj != nil), res
		}
		if o.obj != nil {
			if a, b := dumpObject(o.obj), dumpObject(o2.obj); a != b {
				return vstat.Failf("nondeterministic-object", "two compiles of the same source differ:\n%s", firstDiff(a, b)), res
			}
		}
	}
	if o.obj != nil {
		res.class = "accepted"
	} else {
		// the statement is about the verdict and the produced code; the order of error
		// lines is not part of it (it follows map iteration order in the checker)
		res.class = c03ErrClass(o.err.Error())
	}
	return nil, res
}

func c03ErrClass(e string) string {
	switch {
	case strings.Contains(e, "exceeded maximum recursion depth") || strings.Contains(e, "too deep"):
		return "depth-limit-error"
	case strings.Contains(e, "syntax error"):
		return "parser-error"
	case strings.Contains(e, "Unexpected input") || strings.Contains(e, "Unterminated") || strings.Contains(e, "unterminated"):
		return "lexer-error"
	}
	return "checker-error"
}

var c03Corpus []string

func loadCorpus() []string {
	if c03Corpus != nil {
		return c03Corpus
	}
	var files []string
	repo := os.Getenv("VERIF_REPO")
	if repo == "" {
		repo = "/repo"
	}
	for _, g := range []string{repo + "/examples/*.mtail", repo + "/internal/runtime/fuzz/*.mtail", repo + "/internal/mtail/testdata/*.mtail"} {
		m, _ := filepath.Glob(g)
		files = append(files, m...)
	}
	sort.Strings(files)
	for _, f := range files {
		if b, err := os.ReadFile(f); err == nil && len(b) > 0 {
			c03Corpus = append(c03Corpus, string(b))
		}
	}
	if len(c03Corpus) == 0 {
		c03Corpus = []string{"counter c\n/foo/ {\n  c++\n}\n"}
	}
	return c03Corpus
}

var c03Tokens = []string{
	"counter", "gauge", "timer", "text", "histogram", "hidden", "by", "as", "buckets", "limit", "const", "def", "del", "after",
	"next", "otherwise", "else", "stop", "@d", "d", "c", "x", "$1", "$x", "$", "\"s\"", "\"", "/", "/a(b)/", "/(/", "/[a-/", "/a**/", `/\8/`,
	"{", "}", "(", ")", "[", "]", ",", "+", "-", "*", "/", "%", "**", "<<", ">>", "<", "<=", ">", ">=", "==", "!=", "&", "|", "^", "~", "!",
	"&&", "||", "=~", "!~", "=", "+=", "++", "--", "1", "-1", "0", "1.5", "1e999", "99999999999999999999", "1h", "24h30m", "1.5.5", "0x10",
	"strptime", "timestamp", "settime", "len", "tolower", "subst", "strtol", "int", "float", "string", "bool", "getfilename", "\n", "\n", " ", "#c\n", "\xff", "\x00", "␤",
}

func c03Stress(kind string, n int) string {
	rep := func(s string, n int) string { return strings.Repeat(s, n) }
	switch kind {
	case "parens":
		return "counter c\n/a/ {\n  c = " + rep("(", n) + "1" + rep(")", n) + "\n}\n"
	case "tilde":
		return "counter c\n/a/ {\n  c = " + rep("~", n) + "1\n}\n"
	case "tilde-id":
		// the innermost operand is an identifier (the parser attaches an empty index list to it)
		return "counter c\n/a/ {\n  c = " + rep("~", n) + "c\n}\n"
	case "parens-id":
		return "counter c\n/a/ {\n  c = " + rep("(", n) + "c" + rep(")", n) + "\n}\n"
	case "blocks-empty":
		// the innermost block is empty
		return "counter c\n/b/ {\n  c++\n}\n" + rep("/a/ {\n", n) + rep("}\n", n)
	case "deco-tower-empty":
		return "counter c\n/b/ {\n  c++\n}\ndef d {\n  /a/ {\n    next\n  }\n}\n" + rep("@d {\n", n) + rep("}\n", n)
	case "else-tower-empty":
		return "counter c\n/b/ {\n  c++\n}\n" + rep("/a/ {\n} else {\n", n) + rep("}\n", n)
	case "chain-add":
		return "counter c\n/a/ {\n  c = 1" + rep(" + c", n) + "\n}\n"
	case "chain-and":
		return "counter c\n/a/ && c > 0" + rep(" && c > 0", n) + " {\n  c++\n}\n"
	case "chain-right":
		return "counter c\n/a/ {\n  c = " + rep("1 + (", n) + "1" + rep(")", n) + "\n}\n"
	case "blocks":
		return "counter c\n" + rep("/a/ {\n", n) + "c++\n" + rep("}\n", n)
	case "else-tower":
		return "counter c\n" + rep("/a/ {\nc++\n} else {\n", n) + "c++\n" + rep("}\n", n)
	case "deco-tower":
		return "counter c\ndef d {\n  /a/ {\n    next\n  }\n}\n" + rep("@d {\n", n) + "c++\n" + rep("}\n", n)
	case "nested-int":
		return "counter c\n/(\\d+)/ {\n  c = " + rep("int(", n) + "$1" + rep(")", n) + "\n}\n"
	case "index-tower":
		return "counter c by k\n/a/ {\n  c" + rep("[\"a\"]", n) + "++\n}\n"
	case "long-regex":
		return "counter c\n/" + rep("a", n*20) + "/ {\n  c++\n}\n"
	case "counted-repetition":
		return "counter c\n/" + rep("(a{1000}){1000}", 1+n/1000) + "/ {\n  c++\n}\n"
	case "const-concat":
		return "counter c\nconst A /" + rep("a", 50) + "/\n/x/" + rep(" + A", n) + " {\n  c++\n}\n"
	case "const-doubling":
		// every fragment is twice the previous one: the source is n short lines
		d := n
		if d > 60 {
			d = 60
		}
		var sb strings.Builder
		sb.WriteString("counter c\nconst A0 /a/\n")
		for i := 1; i <= d; i++ {
			fmt.Fprintf(&sb, "const A%d // + A%d + A%d\n", i, i-1, i-1)
		}
		fmt.Fprintf(&sb, "/x/ + A%d {\n  c++\n}\n", d)
		return sb.String()
	case "unterminated-string":
		return "counter c\n/a/ {\n  c = len(\"" + rep("x", n)
	case "unterminated-regex":
		return "counter c\n/" + rep("x", n)
	case "huge-int":
		return "counter c\n/a/ {\n  c = " + rep("9", 1+n) + "\n}\n"
	case "many-decls":
		var sb strings.Builder
		for i := 0; i < n; i++ {
			fmt.Fprintf(&sb, "counter c%d\n", i)
		}
		sb.WriteString("/a/ {\n")
		for i := 0; i < n; i++ {
			fmt.Fprintf(&sb, "  c%d++\n", i)
		}
		sb.WriteString("}\n")
		return sb.String()
	case "buckets":
		var bs []string
		for i := 0; i < n; i++ {
			bs = append(bs, fmt.Sprint(i))
		}
		return "histogram h buckets " + strings.Join(bs, ", ") + "\n/(\\d+)/ {\n  h = $1\n}\n"
	}
	return ""
}

var c03StressKinds = []string{"parens", "parens-id", "tilde", "tilde-id", "blocks-empty", "deco-tower-empty", "else-tower-empty", "chain-add", "chain-and", "chain-right", "blocks", "else-tower", "deco-tower", "nested-int", "index-tower", "long-regex", "counted-repetition", "const-concat", "const-doubling", "unterminated-string", "unterminated-regex", "huge-int", "many-decls", "buckets"}

func splitTokens(s string) []string {
	var toks []string
	cur := ""
	for _, r := range s {
		if r == ' ' || r == '\n' || r == '\t' {
			if cur != "" {
				toks = append(toks, cur)
				cur = ""
			}
			toks = append(toks, string(r))
			continue
		}
		cur += string(r)
	}
	if cur != "" {
		toks = append(toks, cur)
	}
	return toks
}

func TestC03(t *testing.T) {
	st := vstat.New("C03", "byte strings: token soup over mtail's keywords/operators/delimiters plus hostile bytes; raw random bytes; mutations of valid programs (generated by G and taken from the repository's examples): truncation at every byte offset (small programs exhaustively), token delete/duplicate/swap/insert, unbalanced brace/paren/quote/slash; constructed stress shapes (nesting of every bracketing and operator form to depth 1..5000, i.e. below and beyond the recursion limit, long regexes, counted repetition, unterminated strings/regexes, huge literals, many declarations). non-trivial = the input gets past the lexer (compiles, or is rejected by the parser beyond the first token, or by the checker/codegen); distinct by input")
	st.Assumptions = []string{"a compile of an input <= 16 KiB that takes more than 120 s (600 s for the larger stress shapes) is reported as non-termination (typical: milliseconds; deep nesting: seconds)", "determinism is checked on a canonical dump of the returned object (bytecode with operand types, strings, regexps, metrics)"}
	runRaw := func(raw json.RawMessage) *vstat.Failure {
		c, err := vstat.JSON[c03Case](raw)
		if err != nil {
			return vstat.Failf("bad-replay", "%v", err)
		}
		f, _ := runC03(c)
		return f
	}
	record := func(c c03Case, res c03Res) {
		st.Eval()
		if res.class != "" {
			st.Class(res.class)
		}
		if res.class != "" && res.class != "lexer-error" {
			st.NonTrivial(string(c.Src), c)
		}
	}
	hangExit := func(c c03Case, f *vstat.Failure) {
		// a runaway compile cannot be stopped: record it and end the process
		st.Violate(t, f, c, "search")
		st.Flush()
		os.Exit(1)
	}
	st.Run(t, runRaw, func() {
		corpus := loadCorpus()
		shard, shards := vstat.Shard()
		// 1. stress shapes
		depths := []int{1, 2, 10, 50, 99, 100, 101, 102, 150, 700}
		if vstat.Thorough() {
			depths = append(depths, 2000, 5000)
		}
		for ki, kind := range c03StressKinds {
			for di, d := range depths {
				if (ki*len(depths)+di)%shards != shard {
					continue
				}
				c := c03Case{Src: vstat.Q(c03Stress(kind, d))}
				vstat.Begin(c) // a shape that exhausts memory kills the process: the driver reports this case
				f, res := runC03(c)
				record(c, res)
				st.Class("stress:" + kind)
				if f != nil {
					if res.hang {
						hangExit(c, f)
					}
					st.Violate(t, f, c, "stress")
					return
				}
			}
		}
		// 1b. every nesting depth around the recursion limit, for every nesting shape
		// (an off-by-one or a nil position shows at exactly one depth)
		sweep := 0
		for _, kind := range []string{"parens", "parens-id", "tilde", "tilde-id", "chain-add", "chain-and", "chain-right", "blocks", "blocks-empty", "else-tower", "else-tower-empty", "deco-tower", "deco-tower-empty", "nested-int", "index-tower"} {
			for d := 1; d <= 130; d++ {
				sweep++
				if sweep%shards != shard {
					continue
				}
				c := c03Case{Src: vstat.Q(c03Stress(kind, d)), NoDet: true}
				f, res := runC03(c)
				record(c, res)
				st.Class("depth-sweep:" + kind)
				if f != nil {
					if res.hang {
						hangExit(c, f)
					}
					st.Violate(t, f, c, "depth-sweep")
					return
				}
			}
		}
		// 2. truncation of corpus programs at every byte offset (larger ones: sampled offsets)
		for pi, prog := range corpus {
			if pi%shards != shard {
				continue
			}
			step := 1
			if len(prog) > 600 && !vstat.Thorough() {
				step = 1 + len(prog)/150
			}
			for off := 0; off <= len(prog); off += step {
				c := c03Case{Src: vstat.Q(prog[:off])}
				f, res := runC03(c)
				record(c, res)
				st.Class("corpus-truncation")
				if f != nil {
					if res.hang {
						hangExit(c, f)
					}
					st.Violate(t, f, c, "truncation")
					return
				}
			}
		}
		// 2b. constructed shapes: every builtin applied to every combination of
		// argument forms, and every statement form over every operand form, in a
		// program whose declarations are all used (so that the checker does not stop
		// at an unused declaration and code generation is reached)
		nshape := 0
		stop := false
		var early []c03Early // sources compiled early in the run, with their verdicts
		c03Shapes(vstat.Thorough(), func(kind, src string) bool {
			nshape++
			if nshape%shards != shard {
				return true
			}
			c := c03Case{Src: vstat.Q(src), NoDet: nshape%8 != 0}
			defer func() {
				if len(early) < 400 && (nshape%37 == 0 || kind == "strptime-layout-twins" || kind == "capture-group-names" && nshape%5 == 0) {
					early = append(early, c03Early{src, c03Verdict(src)})
				}
			}()
			if kind == "decorator-nesting" {
				// a compiler that expands these for ever dies of stack exhaustion,
				// which cannot be recovered: leave word for the driver
				vstat.Begin(c)
			}
			if kind == "strptime-layout-twins" {
				c.NoDet, c.Reps = false, 2
			}
			if kind == "capture-group-names" {
				// name resolution walks symbol tables: compile several times
				c.NoDet, c.Reps = false, 8
			}
			f, res := runC03(c)
			record(c, res)
			st.Class("shape:" + kind)
			if res.class != "" {
				st.Class("shape-" + res.class)
			}
			if f != nil {
				if res.hang {
					hangExit(c, f)
				}
				st.Violate(t, f, c, "shape")
				stop = true
				return false
			}
			return true
		})
		if stop {
			return
		}
		var sample c03Case
		st.Extra("corpus_programs", len(corpus))
		// 3. generated
		feats := gen.AllFeatures()
		st.Check(t, func(rt *rapid.T) {
			var c c03Case
			defer st.Guard(func() any { return c })
			var src string
			kind := rapid.IntRange(0, 9).Draw(rt, "kind")
			switch {
			case kind == 0: // token soup
				n := rapid.IntRange(1, 60).Draw(rt, "n")
				var sb strings.Builder
				for i := 0; i < n; i++ {
					sb.WriteString(rapid.SampledFrom(c03Tokens).Draw(rt, "tok"))
					if rapid.Bool().Draw(rt, "sp") {
						sb.WriteString(" ")
					}
				}
				src = sb.String()
				st.Class("gen:token-soup")
			case kind == 1: // raw bytes
				src = string(rapid.SliceOfN(rapid.Byte(), 0, 200).Draw(rt, "bytes"))
				st.Class("gen:raw-bytes")
			default:
				var base string
				if rapid.Bool().Draw(rt, "fromG") {
					base = gen.GenProgram(rt, feats).P.Source()
				} else {
					base = rapid.SampledFrom(corpus).Draw(rt, "corpus")
					if len(base) > 1500 {
						off := rapid.IntRange(0, len(base)-1500).Draw(rt, "window")
						// keep whole lines
						if i := strings.IndexByte(base[off:], '\n'); i >= 0 {
							off += i + 1
						}
						end := off + 1500
						if end > len(base) {
							end = len(base)
						}
						base = base[off:end]
					}
				}
				toks := splitTokens(base)
				nm := rapid.IntRange(0, 3).Draw(rt, "nmut")
				for m := 0; m < nm && len(toks) > 1; m++ {
					i := rapid.IntRange(0, len(toks)-1).Draw(rt, "mi")
					switch rapid.IntRange(0, 5).Draw(rt, "mut") {
					case 0:
						toks = append(toks[:i], toks[i+1:]...)
					case 1:
						toks = append(toks[:i+1], toks[i:]...)
					case 2:
						j := rapid.IntRange(0, len(toks)-1).Draw(rt, "mj")
						toks[i], toks[j] = toks[j], toks[i]
					case 3:
						toks[i] = rapid.SampledFrom(c03Tokens).Draw(rt, "ins")
					case 4:
						toks = append(toks[:i+1], append([]string{rapid.SampledFrom([]string{"{", "}", "(", ")", "\"", "/", "[", "]"}).Draw(rt, "unb")}, toks[i+1:]...)...)
					case 5:
						joined := strings.Join(toks, "")
						cut := rapid.IntRange(0, len(joined)).Draw(rt, "cut")
						toks = splitTokens(joined[:cut])
					}
				}
				src = strings.Join(toks, "")
				st.Class("gen:program-mutation")
			}
			if len(src) > 16384 {
				src = src[:16384]
			}
			c = c03Case{Src: vstat.Q(src)}
			sample = c
			f, res := runC03(c)
			record(c, res)
			if f != nil && res.hang {
				hangExit(c, f)
			}
			st.Report(rt, f, c)
		})
		_ = sample
		// the compiler keeps nothing between compilations: a source compiled early
		// in this process gives the same result now, thousands of compilations later
		for _, e := range early {
			if now := c03Verdict(e.src); now != e.verdict {
				c := c03Case{Src: vstat.Q(e.src)}
				st.Violate(t, vstat.Failf("result-depends-on-earlier-compilations", "the same source compiled differently early and late in one process:\nearly: %.300s\nlate:  %.300s", e.verdict, now), c, "late-recheck")
				return
			}
		}
		st.Extra("late_rechecks", len(early))
	})
}

type c03Early struct{ src, verdict string }

var c03Addr = regexp.MustCompile(`0x[0-9a-f]+`)

// c03Verdict compiles src once and renders the outcome (the object, or the
// sorted error lines).
func c03Verdict(src string) string {
	o, done := compileWithDeadline(src, 120*time.Second)
	switch {
	case !done:
		return "does not terminate"
	case o.panic != nil:
		return fmt.Sprintf("panic: %v", o.panic)
	case o.obj != nil:
		return "accepted\n" + dumpObject(o.obj)
	case o.err != nil:
		// internal-error texts print node addresses
		ls := strings.Split(c03Addr.ReplaceAllString(o.err.Error(), "0x?"), "\n")
		sort.Strings(ls)
		return "rejected\n" + strings.Join(ls, "\n")
	}
	return "neither"
}

// c03Forms are operand forms of every syntactic and type class.
var c03Forms = []string{
	`"s"`, `/re(\d+)/`, `X`, `"a" + X`, `X + "a"`, `/r/ + X`, `X + Y`, `$1`, `$0`, `$nope`,
	`c`, `d["k"]`, `d`, `g`, `t`, `h`, `1`, `1.5`, `-1`, `1h`, `c + 1`, `"a" + "b"`, `$1 + "a"`, `(X)`,
	`getfilename()`, `timestamp()`, `1 < 2`, `$1 =~ /x/`, `undefined_name`,
}

const c03Prelude = "const X /a(\\d+)/\nconst Y /b/\ncounter c\ncounter d by k\ngauge g\ntext t\nhistogram h buckets 1, 2\n"
const c03Uses = "/q/ + X + Y {\n  c++\n  d[\"k\"]++\n  g = 1\n  t = \"s\"\n  h = 1.0\n}\n"

// c03Shapes enumerates constructed programs; emit returns false to stop.
func c03Shapes(thorough bool, emit func(kind, src string) bool) {
	prog := func(body string) string {
		return c03Prelude + "/(\\d+) (?P<w>\\w+)/ {\n  " + body + "\n}\n" + c03Uses
	}
	builtins := []string{"int", "float", "string", "bool", "len", "tolower", "subst", "strtol", "strptime", "settime", "timestamp", "getfilename"}
	ctx := []string{"g = %s", "t = %s", "d[%s]++", "%s {\n  }"}
	for _, b := range builtins {
		var calls []string
		calls = append(calls, b+"()")
		for _, a := range c03Forms {
			calls = append(calls, b+"("+a+")")
		}
		multi := b == "subst" || b == "strtol" || b == "strptime"
		for _, a := range c03Forms {
			for i2, a2 := range c03Forms {
				if !thorough && !multi && i2 > 2 {
					break // one-argument builtins: a few two-argument calls suffice in the quick tier
				}
				calls = append(calls, b+"("+a+", "+a2+")")
			}
		}
		if b == "subst" || (thorough && multi) {
			third := []string{`"c"`, `$1`, `X`}
			if thorough {
				third = c03Forms
			}
			for _, a := range c03Forms {
				for _, a2 := range c03Forms {
					for _, a3 := range third {
						calls = append(calls, b+"("+a+", "+a2+", "+a3+")")
					}
				}
			}
		}
		for ci, call := range calls {
			cx := ctx
			if !thorough {
				cx = ctx[ci%len(ctx) : ci%len(ctx)+1]
			}
			for _, c := range cx {
				if !emit("builtin:"+b, prog(strings.Replace(c, "%s", call, 1))) {
					return
				}
			}
		}
	}
	stmts := []string{"del %s", "del %s after 1h", "%s++", "%s--", "%s = %s", "%s += %s", "@%s {\n  }", "%s {\n  } else {\n  }", "%s && %s {\n  }", "%s || %s {\n  }", "%s[%s]++", "%s[%s][%s] = %s", "~%s {\n  }", "c = %s ** %s", "g = %s %% %s", "t = %s >> %s", "%s =~ %s {\n  }", "%s !~ %s {\n  }"}
	for _, sf := range stmts {
		n := strings.Count(sf, "%s")
		idx := make([]int, n)
		for {
			body := sf
			for k := 0; k < n; k++ {
				body = strings.Replace(body, "%s", c03Forms[idx[k]], 1)
			}
			if !emit("stmt:"+sf[:min(len(sf), 12)], prog(body)) {
				return
			}
			// odometer; forms beyond the second operand vary only in the thorough tier
			k := 0
			for k < n {
				lim := len(c03Forms)
				if k >= 2 && !thorough {
					lim = 2
				}
				idx[k]++
				if idx[k] < lim {
					break
				}
				idx[k] = 0
				k++
			}
			if k == n {
				break
			}
		}
	}
	// decorators defined inside decorators, using themselves and each other
	// before they are completely defined (must be refused, not expanded for ever)
	nests := []string{
		"def x {\n  def y {\n    /b/ {\n      @x {\n        next\n      }\n    }\n  }\n  /a/ {\n    @y {\n      next\n    }\n  }\n}\n@x {\n  c++\n}\n",
		"def x {\n  def y {\n    def z {\n      /c/ {\n        @x {\n          next\n        }\n      }\n    }\n    /b/ {\n      @z {\n        next\n      }\n    }\n  }\n  /a/ {\n    @y {\n      next\n    }\n  }\n}\n@x {\n  c++\n}\n",
		"def x {\n  /a/ {\n    @x {\n      next\n    }\n  }\n}\n@x {\n  c++\n}\n",
		"def x {\n  def y {\n    /b/ {\n      @y {\n        next\n      }\n    }\n  }\n  /a/ {\n    @y {\n      next\n    }\n  }\n}\n@x {\n  c++\n}\n",
		"def x {\n  def y {\n    /b/ {\n      next\n    }\n  }\n  /a/ {\n    @y {\n      next\n    }\n  }\n}\n@x {\n  @x {\n    c++\n  }\n}\n",
		"def x {\n  /a/ {\n    next\n  }\n}\ndef y {\n  @x {\n    def x {\n      /b/ {\n        @y {\n          next\n        }\n      }\n    }\n    next\n  }\n}\n@y {\n  c++\n}\n",
	}
	for _, n := range nests {
		if !emit("decorator-nesting", "counter c\n"+n) {
			return
		}
	}
	// strptime layouts in pairs that differ only in characters the checker
	// strips before it tries the layout out ('_' and 'Z'): one of each pair is
	// invalid, and whether it is reported must not depend on the other one
	twins := [][2]string{{"2006_01_02", "20060102"}, {"15_04_05", "150405"}, {"2006-01-02T15:04:05Z", "2006-01-02T15:04:05+"}, {"Jan _2 15:04:05", "Jan 2 15:04:05"}, {"_2/01/2006", "2/01/2006"}, {"02_01", "0201"}}
	for _, tw := range twins {
		for _, order := range [][2]string{{tw[0], tw[1]}, {tw[1], tw[0]}, {tw[0], tw[0]}, {tw[1], tw[1]}} {
			src := "gauge g\n/^(\\S+) (\\S+)$/ {\n  strptime($1, \"" + order[0] + "\")\n  strptime($2, \"" + order[1] + "\")\n  g = timestamp()\n}\n"
			if !emit("strptime-layout-twins", src) {
				return
			}
		}
	}
	// capture groups whose names look like indices, repeat, or shadow each
	// other, referred to by index and by name, directly and through a decorator
	pats := []string{`(a)(?P<1>b)`, `(?P<1>a)(b)`, `(?P<2>a)(b)`, `(?P<0>a)(b)`, `(?P<x>a)(?P<x>b)`, `(?P<x>a)(b)(?P<3>c)`, `(?P<_>a)(b)`, `(?P<01>a)(b)`, `(?P<w>a)(?P<1>b)(c)`, `(?P<x>a)|(?P<y>b)`, `((?P<x>a)(b))`}
	refs := []string{"$0", "$1", "$2", "$3", "$x", "$w", "$01", "$_"}
	frames := []string{
		"/%P/ {\n  d[%R]++\n}\n",
		"def deco {\n  /%P/ {\n    next\n  }\n}\n@deco {\n  d[%R]++\n}\n",
		"def deco {\n  /%P/ {\n    next\n  }\n}\n@deco {\n  /(z)/ {\n    d[%R]++\n  }\n}\n",
		"/%P/ {\n  /(?P<x>q)(r)/ {\n    d[%R]++\n  }\n}\n",
		"/(z)/ && $0 =~ /%P/ {\n  d[%R]++\n}\n",
	}
	for _, pt := range pats {
		for _, r := range refs {
			for _, fr := range frames {
				src := "counter d by k\n" + strings.ReplaceAll(strings.ReplaceAll(fr, "%P", pt), "%R", r)
				if !emit("capture-group-names", src) {
					return
				}
			}
		}
	}
}
