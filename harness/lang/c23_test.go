package lang

// C23 — Formatting a program preserves its meaning.

import (
	"bytes"
	"encoding/json"
	"fmt"
	"math"
	"os"
	"os/exec"
	"strings"
	"testing"

	"github.com/google/mtail/internal/runtime/compiler/ast"
	"github.com/google/mtail/internal/runtime/compiler/checker"
	"github.com/google/mtail/internal/runtime/compiler/parser"
	"github.com/google/mtail/verif/gen"
	"github.com/google/mtail/verif/vstat"
	"pgregory.net/rapid"
)

type c23Case struct {
	Src vstat.Q `json:"src"`
}

// xnode is the structural extract of an AST node (positions and the checker's
// inserted conversions are left out).
type xnode struct {
	kind  string
	attrs []string // "name=value"
	kids  []*xnode
}

var opNames = map[int]string{
	parser.LT: "<", parser.GT: ">", parser.LE: "<=", parser.GE: ">=", parser.EQ: "==", parser.NE: "!=", parser.SHL: "<<", parser.SHR: ">>",
	parser.BITAND: "&", parser.BITOR: "|", parser.XOR: "^", parser.NOT: "~", parser.AND: "&&", parser.OR: "||", parser.PLUS: "+", parser.MINUS: "-",
	parser.MUL: "*", parser.DIV: "/", parser.POW: "**", parser.ASSIGN: "=", parser.ADD_ASSIGN: "+=", parser.MOD: "%", parser.MATCH: "=~", parser.NOT_MATCH: "!~",
	parser.INC: "++", parser.DEC: "--",
}

func extract(n ast.Node) *xnode {
	if n == nil {
		return &xnode{kind: "nil"}
	}
	switch v := n.(type) {
	case *ast.StmtList:
		x := &xnode{kind: "stmts"}
		for _, c := range v.Children {
			x.kids = append(x.kids, extract(c))
		}
		return x
	case *ast.ExprList:
		x := &xnode{kind: "exprs"}
		for _, c := range v.Children {
			x.kids = append(x.kids, extract(c))
		}
		return x
	case *ast.CondStmt:
		x := &xnode{kind: "cond", kids: []*xnode{extract(v.Cond), extract(v.Truth)}}
		if v.Else != nil {
			x.attrs = append(x.attrs, "else=true")
			x.kids = append(x.kids, extract(v.Else))
		}
		return x
	case *ast.OtherwiseStmt:
		return &xnode{kind: "otherwise"}
	case *ast.BinaryExpr:
		return &xnode{kind: "binary", attrs: []string{"op=" + opNames[v.Op]}, kids: []*xnode{extract(v.LHS), extract(v.RHS)}}
	case *ast.UnaryExpr:
		return &xnode{kind: "unary", attrs: []string{"op=" + opNames[v.Op]}, kids: []*xnode{extract(v.Expr)}}
	case *ast.IDTerm:
		return &xnode{kind: "id", attrs: []string{"name=" + v.Name}}
	case *ast.CaprefTerm:
		return &xnode{kind: "capref", attrs: []string{"name=" + v.Name}}
	case *ast.BuiltinExpr:
		x := &xnode{kind: "call", attrs: []string{"name=" + v.Name}}
		if v.Args != nil {
			x.kids = append(x.kids, extract(v.Args))
		}
		return x
	case *ast.IndexedExpr:
		return &xnode{kind: "indexed", kids: []*xnode{extract(v.LHS), extract(v.Index)}}
	case *ast.VarDecl:
		return &xnode{kind: "decl", attrs: []string{
			"kind=" + v.Kind.String(), "name=" + v.Name, fmt.Sprintf("hidden=%v", v.Hidden), "exported=" + v.ExportedName,
			fmt.Sprintf("keys=%q", v.Keys), fmt.Sprintf("limit=%d", v.Limit), "buckets=" + floatsString(v.Buckets)}}
	case *ast.StringLit:
		return &xnode{kind: "string", attrs: []string{fmt.Sprintf("text=%q", v.Text)}}
	case *ast.IntLit:
		return &xnode{kind: "literal", attrs: []string{"type=int", fmt.Sprintf("value=%d", v.I)}}
	case *ast.FloatLit:
		return &xnode{kind: "literal", attrs: []string{"type=float", fmt.Sprintf("value=%x", math.Float64bits(v.F))}}
	case *ast.PatternExpr:
		return extract(v.Expr)
	case *ast.PatternLit:
		return &xnode{kind: "regex", attrs: []string{fmt.Sprintf("pattern=%q", v.Pattern)}}
	case *ast.PatternFragment:
		return &xnode{kind: "const", kids: []*xnode{extract(v.ID), extract(v.Expr)}}
	case *ast.DecoDecl:
		return &xnode{kind: "def", attrs: []string{"name=" + v.Name}, kids: []*xnode{extract(v.Block)}}
	case *ast.DecoStmt:
		return &xnode{kind: "decorated", attrs: []string{"name=" + v.Name}, kids: []*xnode{extract(v.Block)}}
	case *ast.NextStmt:
		return &xnode{kind: "next"}
	case *ast.DelStmt:
		return &xnode{kind: "del", attrs: []string{fmt.Sprintf("expiry=%d", int64(v.Expiry))}, kids: []*xnode{extract(v.N)}}
	case *ast.ConvExpr:
		return extract(v.N)
	case *ast.StopStmt:
		return &xnode{kind: "stop"}
	case *ast.Error:
		return &xnode{kind: "error", attrs: []string{"spelling=" + v.Spelling}}
	}
	return &xnode{kind: fmt.Sprintf("%T", n)}
}

func floatsString(fs []float64) string {
	var p []string
	for _, f := range fs {
		p = append(p, fmt.Sprintf("%x", math.Float64bits(f)))
	}
	return strings.Join(p, ",")
}

func (x *xnode) String() string {
	var sb strings.Builder
	sb.WriteString("(" + x.kind)
	for _, a := range x.attrs {
		sb.WriteString(" " + a)
	}
	for _, k := range x.kids {
		sb.WriteString(" " + k.String())
	}
	sb.WriteString(")")
	return sb.String()
}

// xdiff returns a root-cause label and a description of the first difference.
func xdiff(a, b *xnode, path string) (string, string) {
	if a.kind != b.kind {
		label := "node-kind:" + a.kind + "->" + b.kind
		if a.kind == "binary" || b.kind == "binary" {
			label = "expression-grouping"
		}
		return label, fmt.Sprintf("at %s: %s became %s", path, a, b)
	}
	for i := range a.attrs {
		if i >= len(b.attrs) || a.attrs[i] != b.attrs[i] {
			name := strings.SplitN(a.attrs[i], "=", 2)[0]
			label := a.kind + "-" + name
			if a.kind == "binary" && name == "op" {
				label = "expression-grouping"
			}
			bv := "<none>"
			if i < len(b.attrs) {
				bv = b.attrs[i]
			}
			return label, fmt.Sprintf("at %s/%s: %s became %s", path, a.kind, a.attrs[i], bv)
		}
	}
	if len(a.attrs) != len(b.attrs) {
		return a.kind + "-attributes", fmt.Sprintf("at %s: %s became %s", path, a, b)
	}
	if len(a.kids) != len(b.kids) {
		return a.kind + "-children", fmt.Sprintf("at %s: %d children became %d: %s -> %s", path, len(a.kids), len(b.kids), a, b)
	}
	for i := range a.kids {
		if l, d := xdiff(a.kids[i], b.kids[i], fmt.Sprintf("%s/%s[%d]", path, a.kind, i)); l != "" {
			return l, d
		}
	}
	return "", ""
}

func parseAndCheck(name, src string) (ast.Node, error) {
	n, err := parser.Parse(name, strings.NewReader(src))
	if err != nil {
		return nil, err
	}
	return checker.Check(n, 0, 0)
}

type c23Res struct{ accepted bool }

func runC23(c c23Case) (*vstat.Failure, c23Res) {
	var res c23Res
	f := vstat.Catch(func() *vstat.Failure {
		var ff *vstat.Failure
		ff, res = runC23x(c)
		return ff
	})
	return f, res
}

func runC23x(c c23Case) (*vstat.Failure, c23Res) {
	var res c23Res
	src := string(c.Src)
	a1, err := parseAndCheck("c23.mtail", src)
	if err != nil {
		return nil, res
	}
	res.accepted = true
	x1 := extract(a1)
	u1 := parser.Unparser{}
	text1 := u1.Unparse(a1)
	show := func() string { return "\n--- source\n" + src + "\n--- formatted\n" + text1 }
	n2, err := parser.Parse("c23.mtail", strings.NewReader(text1))
	if err != nil {
		return vstat.Failf("formatted-output-does-not-parse", "%v%s", err, show()), res
	}
	// compare the parse trees before the checker touches the second one too
	a2, err := checker.Check(n2, 0, 0)
	if err != nil {
		// find out what was lost by comparing the unchecked parse with the original
		n1, _ := parser.Parse("c23.mtail", strings.NewReader(src))
		n2b, _ := parser.Parse("c23.mtail", strings.NewReader(text1))
		label := "unknown"
		if n1 != nil && n2b != nil {
			if l, _ := xdiff(extract(n1), extract(n2b), ""); l != "" {
				label = l
			}
		}
		return vstat.Failf("formatted-output-rejected:"+label, "the checker rejects the formatted program: %v%s", err, show()), res
	}
	if l, d := xdiff(x1, extract(a2), ""); l != "" {
		return vstat.Failf("meaning-changed:"+l, "%s%s", d, show()), res
	}
	u2 := parser.Unparser{}
	if text2 := u2.Unparse(a2); text2 != text1 {
		return vstat.Failf("not-idempotent", "formatting the formatted program gives different text:\n%s%s", text2, show()), res
	}
	return nil, res
}

// c23Fixed are a few hand-written programs with spellings the generator
// rarely reaches; they are checked like the repository's examples.
var c23Fixed = []string{
	"histogram h buckets 1.0, 10000000000.0, 100000000000000000000.0\n/(\\d+)/ {\n  h = $1\n}\n",
	"histogram h by k buckets 0.5, 9300000000000000000.0, 1e300\n/(\\w+) (\\d+)/ {\n  h[$1] = $2\n}\n",
	"histogram h buckets 0.0000000001, 1e21\ngauge g\n/(\\d+)/ {\n  h = $1\n  g = 2 * (3 ** 2) / (4 % (5 ** 2))\n  g = 1000000.0 * 1e21 - 0.000001\n}\n",
}

// c23ExprStmts are expressions that need neither captures nor metrics, written
// the way the grammar accepts them as statements.
var c23ExprStmts = []string{
	"(~1)", "(~\"\")", "(~(1 + 2))", "(/a+b/)", "(\"x\" =~ /a/)", "(\"x\" !~ /a/)", "(1 + 2)", "(1 < 2)", "(\"a\" + \"b\")",
	"(/a/ && 1 < 2)", "(1 < 2 || /b/)", "(2 ** 3 % 4)", "(1)", "((1))", "(\"s\")", "(1.5)", "(len(\"x\"))", "5", "\"s\"", "2.5", "len(\"x\")", "tolower(\"X\")",
	"(timestamp())", "(~len(\"x\") & 1)",
}

func TestC23(t *testing.T) {
	st := vstat.New("C23", "checker-accepted programs from G with the formatter-relevant constructs emphasised: sub-expressions whose grouping overrides precedence at every level (and redundant parentheses), hidden and renamed ('as') metrics, quoted keys, limit, histogram boundaries incl. very small ones, float literals with integral value, negative literals, string literals with quotes and backslashes, const fragments and concatenations, decorators, else/otherwise, del-after, unary ~, expressions of every kind used as statements (parenthesised operator, unary, match and pattern expressions; bare primaries); plus the repository's example programs; non-trivial = accepted program with at least one emphasised construct; distinct by source")
	st.Assumptions = []string{"the comparison uses a harness-side structural extract of mtail's AST (declarations with every attribute, statement tree, expression trees with operator, operand order, literal type and value, pattern and string texts) that ignores positions and the checker's inserted conversions"}
	runRaw := func(raw json.RawMessage) *vstat.Failure {
		c, err := vstat.JSON[c23Case](raw)
		if err != nil {
			return vstat.Failf("bad-replay", "%v", err)
		}
		f, _ := runC23(c)
		return f
	}
	st.Run(t, runRaw, func() {
		shard, _ := vstat.Shard()
		mfmt := buildMfmt(t, st)
		if t.Failed() {
			return
		}
		if shard == 0 {
			for _, p := range append(loadCorpus(), c23Fixed...) {
				if len(p) > 8192 {
					continue
				}
				c := c23Case{Src: vstat.Q(p)}
				f, res := runC23(c)
				st.Eval()
				if res.accepted {
					st.Class("corpus-program")
					st.NonTrivial(p, nil)
					if f == nil {
						f = runMfmtBinary(mfmt, p)
						st.Class("mfmt-binary-run")
					}
				}
				if f != nil {
					st.Violate(t, f, c, "corpus")
					if t.Failed() {
						return
					}
				}
			}
		}
		feats := gen.AllFeatures()
		feats.Histograms, feats.Unary, feats.NoUnaryOnBool, feats.TimeBuiltins = true, true, true, true
		feats.QuotedKeys, feats.HostileStrings, feats.SmallBuckets, feats.OddDurations = true, true, true, true
		feats.PinTypes, feats.OnePatternPerCond, feats.NoMixedMetricReads = true, true, true
		nAccepted, nBinary, nRejected := 0, 0, 0 // the binary is run on a bounded sample (three process launches per run)
		st.Check(t, func(rt *rapid.T) {
			var c c23Case
			defer st.Guard(func() any { return c })
			g := gen.GenProgram(rt, feats)
			c.Src = vstat.Q(g.P.Source())
			exprStmt := ""
			if rapid.IntRange(0, 4).Draw(rt, "exprstmt") == 0 {
				// an expression of any kind used as a statement (the grammar takes a
				// primary expression there, so everything else stands in parentheses)
				exprStmt = rapid.SampledFrom(c23ExprStmts).Draw(rt, "stmt")
				ls := strings.SplitAfter(string(c.Src), "\n")
				at := rapid.IntRange(0, len(ls)).Draw(rt, "at")
				c.Src = vstat.Q(strings.Join(ls[:at], "") + exprStmt + "\n" + strings.Join(ls[at:], ""))
			}
			f, res := runC23(c)
			st.Eval()
			nAccepted++
			if res.accepted && f == nil && nAccepted%40 == 0 && nBinary < 300 {
				nBinary++
				// the command itself, formatting a file in place
				f = runMfmtBinary(mfmt, string(c.Src))
				st.Class("mfmt-binary-run")
			}
			if res.accepted {
				src := string(c.Src)
				emph := strings.Contains(src, "(") || strings.Contains(src, "hidden ") || strings.Contains(src, " as \"") || strings.Contains(src, "buckets") || strings.Contains(src, ".0") || strings.Contains(src, "\\\"") || strings.Contains(src, "const ") || strings.Contains(src, "def ")
				if emph {
					st.NonTrivial(src, c)
				}
				for k := range g.Classes {
					switch k {
					case "redundant-parens", "quoted-key", "small-bucket-boundaries", "string-with-quote-or-backslash", "decorator-use", "del-after", "otherwise", "else", "unary-on-int":
						st.Class(k)
					}
				}
				if exprStmt != "" {
					st.Class("expression-as-statement")
				}
				for _, kw := range []string{"hidden ", " as \"", "const ", " limit "} {
					if strings.Contains(src, kw) {
						st.Class("has" + strings.TrimRight(kw, " \""))
					}
				}
			} else {
				st.Class("rejected-by-checker")
				nRejected++
			}
			st.Report(rt, f, c)
		})
		// generator health: G's programs are meant to be accepted; a high
		// rejection rate means the generator (not mtail) needs fixing
		if nAccepted > 200 && nRejected*5 > nAccepted {
			st.Inconclusive(t, "%d of %d generated programs were rejected by the compiler: the generator is producing invalid programs", nRejected, nAccepted)
		}
	})
}

// buildMfmt builds cmd/mfmt from the tree under test.
func buildMfmt(t *testing.T, st *vstat.Stats) string {
	out := vstat.Scratch() + "/mfmt"
	args := []string{"build", "-o", out}
	if mf := os.Getenv("VERIF_MODFILE"); mf != "" {
		args = append(args, "-modfile="+mf)
	}
	cmd := exec.Command("go", append(args, "github.com/google/mtail/cmd/mfmt")...)
	cmd.Dir = "/verif/harness"
	if b, err := cmd.CombinedOutput(); err != nil {
		st.Inconclusive(t, "cannot build cmd/mfmt: %v\n%s", err, b)
		return ""
	}
	return out
}

// runMfmtBinary formats src with the real command: to stdout, in place, and in
// place again; all three must agree with the in-process formatter.
func runMfmtBinary(mfmt, src string) *vstat.Failure {
	a, err := parseAndCheck("c23.mtail", src)
	if err != nil {
		return nil
	}
	u := parser.Unparser{}
	want := u.Unparse(a)
	// pad the source so that the formatted text is shorter than the file
	file := vstat.Scratch() + "/prog.mtail"
	padded := "# a leading comment that makes the file longer than its formatted form\n\n" + src + "\n\n# trailing comment\n"
	if err := os.WriteFile(file, []byte(padded), 0o644); err != nil {
		return vstat.Failf("harness", "%v", err)
	}
	run := func(args ...string) (string, error) {
		cmd := exec.Command(mfmt, append([]string{"-logtostderr"}, args...)...)
		var stdout, stderr bytes.Buffer
		cmd.Stdout, cmd.Stderr = &stdout, &stderr
		err := cmd.Run()
		if err != nil {
			return stdout.String(), fmt.Errorf("%v: %s", err, stderr.String())
		}
		return stdout.String(), nil
	}
	out, err := run("-prog", file)
	if err != nil {
		return vstat.Failf("mfmt-command-fails", "mfmt -prog: %v\n--- source\n%s", err, src)
	}
	if out != want {
		return vstat.Failf("mfmt-stdout-differs", "mfmt prints\n%s\nthe formatter gives\n%s", out, want)
	}
	for pass := 1; pass <= 2; pass++ {
		if _, err := run("-prog", file, "-write"); err != nil {
			return vstat.Failf("mfmt-command-fails", "mfmt -write (pass %d): %v\n--- source\n%s", pass, err, src)
		}
		b, _ := os.ReadFile(file)
		if string(b) != want {
			return vstat.Failf("mfmt-write-differs", "after mfmt -write (pass %d) the file holds\n%q\nwant\n%q", pass, string(b), want)
		}
	}
	return nil
}
