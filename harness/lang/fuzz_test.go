package lang

// Native coverage-guided fuzz targets (thorough tier only) for the two
// byte-level properties: C03 (the compiler on any source text) and C04
// (accepted programs never fault in the VM). The oracles are the same
// functions the rapid checks use. A failing input is written, with its
// signature, to $VERIF_SCRATCH/fuzz-violation-<ID>.json for the driver; inputs
// that fail with the signature of a live known finding are skipped so that the
// campaign goes on behind them.

import (
	"bytes"
	"encoding/json"
	"os"
	"strings"
	"testing"

	"github.com/google/mtail/verif/vstat"
)

func fuzzReport(id string, f *vstat.Failure, c any) {
	d := os.Getenv("VERIF_SCRATCH")
	if d == "" {
		return
	}
	b, _ := json.Marshal(map[string]any{"sig": f.Sig, "msg": f.Msg, "kind": "native-fuzz", "case": c})
	_ = os.WriteFile(d+"/fuzz-violation-"+id+".json", b, 0o644)
}

func FuzzC03(f *testing.F) {
	st := vstat.New("C03", "")
	st.Probes(f, func(raw json.RawMessage) *vstat.Failure {
		c, err := vstat.JSON[c03Case](raw)
		if err != nil {
			return vstat.Failf("bad-replay", "%v", err)
		}
		ff, _ := runC03(c)
		return ff
	})
	for _, p := range loadCorpus() {
		if len(p) <= 4096 {
			f.Add([]byte(p))
		}
	}
	for _, s := range []string{"counter c\n/a/ {\n  c++\n}\n", "const X /a/\ntext t\n/x/ {\n  t = subst(X, \"b\", \"c\")\n}\n", "def d {\n  /x/ {\n    next\n  }\n}\n@d {\n}\n", "histogram h by k buckets 1, 2\n/(\\d+)/ {\n  h[$1] = $1\n}\n", "gauge g\n/(?P<x>\\d+\\.\\d+)/ {\n  g = $x ** 2 % 3 << 1\n  del g after 1h\n}\n"} {
		f.Add([]byte(s))
	}
	f.Fuzz(func(t *testing.T, data []byte) {
		if len(data) > 4096 {
			return
		}
		c := c03Case{Src: vstat.Q(data), NoDet: false}
		ff, res := runC03(c)
		if ff == nil {
			return
		}
		if st.LiveFor(ff.Sig) != "" {
			return
		}
		fuzzReport("C03", ff, c)
		if res.hang {
			os.Exit(1)
		}
		t.Fatalf("%v", ff)
	})
}

func FuzzC04(f *testing.F) {
	st := vstat.New("C04", "")
	run := func(raw json.RawMessage) *vstat.Failure {
		c, err := vstat.JSON[c04Case](raw)
		if err != nil {
			return vstat.Failf("bad-replay", "%v", err)
		}
		ff, _ := runC04(c)
		return ff
	}
	st.Probes(f, run)
	// input format (as upstream's fuzzer): program, a blank-line separator "\n\x00\n", then lines
	sep := []byte("\n\x00\n")
	for _, p := range loadCorpus() {
		if len(p) <= 4096 {
			f.Add(append(append([]byte(p), sep...), []byte("foo 1 2.5 bar\n2015/07/24 10:14:11 x\n\n")...))
		}
	}
	f.Add([]byte("histogram h buckets 1, 2\ngauge g\ntext t\n/(\\w+) (\\d+)/ {\n  g = $2\n  t = $1\n  h = $2\n}\n\n\x00\nabc 12\nzz 99999999999999999999\n"))
	f.Fuzz(func(t *testing.T, data []byte) {
		if len(data) > 8192 {
			return
		}
		src, lines := data, []byte(nil)
		if i := bytes.Index(data, sep); i >= 0 {
			src, lines = data[:i], data[i+len(sep):]
		}
		c := c04Case{Src: vstat.Q(src)}
		for _, l := range strings.Split(string(lines), "\n") {
			if len(c.Lines) < 8 {
				c.Lines = append(c.Lines, vstat.Q(l))
			}
		}
		ff, _ := runC04(c)
		if ff == nil {
			return
		}
		if st.LiveFor(ff.Sig) != "" {
			return
		}
		fuzzReport("C04", ff, c)
		t.Fatalf("%v", ff)
	})
}

// FuzzC23: any source text the checker accepts must survive formatting with
// its meaning intact (the oracle is runC23, as in the rapid check).
func FuzzC23(f *testing.F) {
	st := vstat.New("C23", "")
	st.Probes(f, func(raw json.RawMessage) *vstat.Failure {
		c, err := vstat.JSON[c23Case](raw)
		if err != nil {
			return vstat.Failf("bad-replay", "%v", err)
		}
		ff, _ := runC23(c)
		return ff
	})
	for _, p := range loadCorpus() {
		if len(p) <= 4096 {
			f.Add([]byte(p))
		}
	}
	for _, s := range []string{"counter c\n/a/ {\n  c++\n}\n", "hidden gauge g by a, b\ncounter x as \"y z\" by k limit 3\nhistogram h by \"k-1\" buckets 0.001, 1, 2.5\nconst X /a\\/b/\n/(?P<v>\\d+) (\\S+)/ + X {\n  g[$v][$2] = (1 + $v) * 2 - -3\n  x[tolower(\"Q\\\"\\\\\")]++\n  h[$2] = $v ** 2.0\n  del g[$v][$2] after 90s\n}\n", "def d {\n  /x/ {\n    next\n  }\n}\ncounter c\n@d {\n  $0 =~ /a/ && strptime($0, \"2006\") > 1 || 1 < 2 {\n    c++\n  } else {\n    stop\n  }\n  otherwise {\n    c += len($0) & 3 | 1 ^ 2 << 1 >> 1\n  }\n}\n"} {
		f.Add([]byte(s))
	}
	f.Fuzz(func(t *testing.T, data []byte) {
		if len(data) > 4096 {
			return
		}
		c := c23Case{Src: vstat.Q(data)}
		ff, _ := runC23(c)
		if ff == nil {
			return
		}
		if st.LiveFor(ff.Sig) != "" {
			return
		}
		fuzzReport("C23", ff, c)
		t.Fatalf("%v", ff)
	})
}

// FuzzC02: any program text that compiles, with and without the optimiser,
// must behave alike on the lines that follow (oracle: runC02, as in the rapid
// check). Programs that read the wall clock are skipped: the two copies run at
// different instants.
func FuzzC02(f *testing.F) {
	st := vstat.New("C02", "")
	st.Probes(f, func(raw json.RawMessage) *vstat.Failure {
		c, err := vstat.JSON[c02Case](raw)
		if err != nil {
			return vstat.Failf("bad-replay", "%v", err)
		}
		ff, _ := runC02(c)
		return ff
	})
	sep := []byte("\n\x00\n")
	for _, p := range loadCorpus() {
		if len(p) <= 4096 {
			f.Add(append(append([]byte(p), sep...), []byte("foo 1 2.5 bar\n17 3.5 w\n")...))
		}
	}
	for _, s := range []string{
		"gauge g\ngauge h\ncounter d by k\n/(?P<i>\\d+) (?P<f>\\d+\\.\\d+)/ {\n  g = 2 ** 3 % 5 + $i * (4 - 1)\n  h = 1.5 * 2 + $f / (2 + 2.0)\n  d[3 * 7]++\n  $i > 2 + 3 * 1 {\n    d[\"x\"]++\n  }\n  del d[1 + 1] after 1h\n}\n",
		"gauge g\n/(\\d+)/ {\n  g = 10 / (3 - 1) % 2 - -4\n  g += 1 << 2 + 1\n  g = strtol($1, 8 + 2)\n}\n",
	} {
		f.Add(append(append([]byte(s), sep...), []byte("17 3.5\n5 0.5\n")...))
	}
	f.Fuzz(func(t *testing.T, data []byte) {
		if len(data) > 8192 || bytes.Contains(data, []byte("timestamp")) {
			return
		}
		src, lines := data, []byte(nil)
		if i := bytes.Index(data, sep); i >= 0 {
			src, lines = data[:i], data[i+len(sep):]
		}
		if len(src) == 0 {
			return
		}
		c := c02Case{Raw: vstat.Q(src)}
		for _, l := range strings.Split(string(lines), "\n") {
			if len(c.Lines) < 6 {
				c.Lines = append(c.Lines, l)
			}
		}
		ff, _ := runC02(c)
		if ff == nil {
			return
		}
		if st.LiveFor(ff.Sig) != "" {
			return
		}
		fuzzReport("C02", ff, c)
		t.Fatalf("%v", ff)
	})
}
