package lang

// C02 — Constant folding never changes a program's results.

import (
	"encoding/json"
	"fmt"
	"math"
	"strings"
	"testing"

	"github.com/google/mtail/internal/runtime/compiler"
	"github.com/google/mtail/verif/gen"
	"github.com/google/mtail/verif/hx"
	"github.com/google/mtail/verif/vstat"
	"pgregory.net/rapid"
)

type c02Stmt struct {
	Pos string    `json:"pos"` // assign-int assign-float addassign-int addassign-float key cond cond-cap strtol-base settime partial-int partial-float
	E   *gen.Expr `json:"e"`
	E2  *gen.Expr `json:"e2,omitempty"`
	Op  string    `json:"op,omitempty"` // comparison operator
}

type c02Case struct {
	Stmts []c02Stmt `json:"stmts"`
	Lines []string  `json:"lines"`
	// Raw: the program is this text (native fuzz target) instead of Stmts
	Raw vstat.Q `json:"raw,omitempty"`
}

func (c *c02Case) source() string {
	if c.Raw != "" {
		return string(c.Raw)
	}
	var sb strings.Builder
	used := map[string]bool{}
	for _, s := range c.Stmts {
		switch s.Pos {
		case "assign-int", "addassign-int", "strtol-base":
			used["gauge gi\n"] = true
		case "assign-float", "addassign-float":
			used["gauge gf\n"] = true
		case "settime":
			used["gauge gt\n"] = true
		case "addassign-counter-int":
			used["counter cn\n"] = true
		case "addassign-counter-float":
			used["counter cf\n"] = true
		case "concat-string", "strcat":
			used["text tx\n"] = true
		case "strcmp":
			used["counter d by k\n"] = true
		default:
			used["counter d by k\n"] = true
		}
	}
	for _, d := range []string{"gauge gi\n", "gauge gf\n", "gauge gt\n", "counter cn\n", "counter cf\n", "text tx\n", "counter d by k\n"} {
		if used[d] {
			sb.WriteString(d)
		}
	}
	sb.WriteString("/^(?P<i>\\d+) (?P<f>\\d+\\.\\d+) (?P<w>\\w+)$/ {\n")
	var conds []string
	for n, s := range c.Stmts {
		e := gen.PrintExpr(s.E, 1)
		switch s.Pos {
		case "assign-int":
			fmt.Fprintf(&sb, "  gi = %s\n", e)
		case "assign-float":
			fmt.Fprintf(&sb, "  gf = %s\n", e)
		case "addassign-int":
			fmt.Fprintf(&sb, "  gi += %s\n", e)
		case "addassign-float":
			fmt.Fprintf(&sb, "  gf += %s\n", e)
		case "addassign-counter-int":
			fmt.Fprintf(&sb, "  cn += %s\n", e)
		case "addassign-counter-float":
			fmt.Fprintf(&sb, "  cf += %s\n", e)
		case "key":
			fmt.Fprintf(&sb, "  d[%s]++\n", e)
		case "strtol-base":
			fmt.Fprintf(&sb, "  gi = strtol($w, %s)\n", e)
		case "settime":
			fmt.Fprintf(&sb, "  settime(%s)\n  gt = timestamp()\n", e)
		case "concat-string":
			fmt.Fprintf(&sb, "  tx = %s\n", e)
		case "cond-cap":
			fmt.Fprintf(&sb, "  $i %s %s {\n    d[\"cc%d\"]++\n  }\n", s.Op, gen.PrintExpr(s.E, 4), n)
		case "cond":
			conds = append(conds, fmt.Sprintf("%s %s %s {\n  d[\"c%d\"]++\n}\n", gen.PrintExpr(s.E, 4), s.Op, gen.PrintExpr(s.E2, 4), n))
		case "cond-bare":
			// a constant arithmetic expression alone as the condition
			conds = append(conds, fmt.Sprintf("%s {\n  d[\"cb%d\"]++\n}\n", gen.PrintExpr(s.E, 1), n))
		case "cond-and-bare":
			fmt.Fprintf(&sb, "  $i >= 0 && %s {\n    d[\"ca%d\"]++\n  }\n", gen.PrintExpr(s.E, 4), n)
		}
	}
	sb.WriteString("}\n")
	for _, cs := range conds {
		sb.WriteString(cs)
	}
	// statements on a free-form string capture
	var sblock []string
	for n, s := range c.Stmts {
		switch s.Pos {
		case "strcat":
			sblock = append(sblock, fmt.Sprintf("  tx = %s\n", gen.PrintExpr(s.E, 1)))
		case "strcmp":
			sblock = append(sblock, fmt.Sprintf("  $s %s %s {\n    d[\"sc%d\"]++\n  }\n", s.Op, gen.PrintExpr(s.E, 4), n))
		}
	}
	if len(sblock) > 0 {
		sb.WriteString("/^s (?P<s>\\S+)$/ {\n" + strings.Join(sblock, "") + "}\n")
	}
	return sb.String()
}

// constEval evaluates a constant tree the way both the optimiser and the VM
// are documented to (Go integer and IEEE float arithmetic); ok=false if the
// tree is not constant.
func constEval(e *gen.Expr) (isFloat bool, i int64, f float64, ok bool) {
	switch e.Op {
	case "lit":
		if e.Ty == gen.TFloat {
			return true, 0, e.F, true
		}
		if e.Ty == gen.TInt {
			return false, e.I, 0, true
		}
		return false, 0, 0, false
	case "paren":
		return constEval(e.Args[0])
	case "bin":
		lf, li, lff, lok := constEval(e.Args[0])
		rf, ri, rff, rok := constEval(e.Args[1])
		if !lok || !rok {
			return false, 0, 0, false
		}
		if !lf && !rf {
			switch e.Name {
			case "+":
				return false, li + ri, 0, true
			case "-":
				return false, li - ri, 0, true
			case "*":
				return false, li * ri, 0, true
			case "/":
				if ri == 0 {
					return false, 0, 0, false
				}
				return false, li / ri, 0, true
			case "%":
				if ri == 0 {
					return false, 0, 0, false
				}
				return false, li % ri, 0, true
			case "**":
				return false, int64(math.Pow(float64(li), float64(ri))), 0, true
			}
			return false, 0, 0, false
		}
		a, b := lff, rff
		if !lf {
			a = float64(li)
		}
		if !rf {
			b = float64(ri)
		}
		switch e.Name {
		case "+":
			return true, 0, a + b, true
		case "-":
			return true, 0, a - b, true
		case "*":
			return true, 0, a * b, true
		case "/":
			return true, 0, a / b, true
		case "%":
			return true, 0, math.Mod(a, b), true
		case "**":
			return true, 0, math.Pow(a, b), true
		}
	}
	return false, 0, 0, false
}

// hasConstZeroDivisor: some / or % whose right operand is a constant that
// evaluates to zero (literally or after folding).
func hasConstZeroDivisor(e *gen.Expr) bool {
	if e == nil {
		return false
	}
	if e.Op == "bin" && (e.Name == "/" || e.Name == "%") {
		if isF, i, f, ok := constEval(e.Args[1]); ok && ((isF && f == 0) || (!isF && i == 0)) {
			return true
		}
		// a constant right operand that itself cannot be evaluated because of an inner zero divisor
	}
	for _, a := range e.Args {
		if hasConstZeroDivisor(a) {
			return true
		}
	}
	return false
}

func countFoldable(e *gen.Expr) int {
	if e == nil {
		return 0
	}
	n := 0
	if e.Op == "bin" {
		if _, _, _, ok := constEval(e); ok {
			n++
		}
	}
	for _, a := range e.Args {
		n += countFoldable(a)
	}
	return n
}

type c02Res struct {
	bothCompiled bool
	changed      bool
}

func runC02(c c02Case) (*vstat.Failure, c02Res) {
	var res c02Res
	f := vstat.Catch(func() *vstat.Failure {
		var ff *vstat.Failure
		ff, res = runC02x(c)
		return ff
	})
	return f, res
}

func runC02x(c c02Case) (*vstat.Failure, c02Res) {
	var res c02Res
	src := c.source()
	objO, errO := hx.Compile("c02opt.mtail", src)
	objU, errU := hx.Compile("c02raw.mtail", src, compiler.DisableOptimisation())
	zeroDiv := c.Raw != "" // raw text: the error message alone decides
	if c.Raw != "" && errO != nil && errU != nil {
		return nil, res // not a program
	}
	for _, s := range c.Stmts {
		if hasConstZeroDivisor(s.E) || hasConstZeroDivisor(s.E2) {
			zeroDiv = true
		}
	}
	if errU != nil {
		if errO != nil {
			// both reject: fine for this property when the reason is an integer division by a literal zero (C24)
			bare := false
			for _, s := range c.Stmts {
				if s.Pos == "cond-bare" || s.Pos == "cond-and-bare" {
					bare = true
				}
			}
			if bare && strings.Contains(errU.Error(), "as a boolean expression") && strings.Contains(errO.Error(), "as a boolean expression") {
				// not a condition for either compile
				return nil, res
			}
			if !zeroDiv {
				return vstat.Failf("harness-invalid-program", "both compiles reject a program without a constant zero divisor: %v\n%s", errU, src), res
			}
			return nil, res
		}
		return vstat.Failf("unoptimised-rejects-only", "the unoptimised compile rejects what the optimised one accepts: %v\n%s", errU, src), res
	}
	if errO != nil {
		okMsg := true
		for _, l := range strings.Split(strings.TrimSpace(errO.Error()), "\n") {
			ll := strings.ToLower(l)
			if !(strings.Contains(ll, "divide by zero") || strings.Contains(ll, "mod by zero") || strings.Contains(ll, "divide by zero.")) {
				okMsg = false
			}
		}
		if zeroDiv && okMsg {
			return nil, res
		}
		return vstat.Failf("optimised-rejects", "optimised compile rejects (constant zero divisor present: %v): %v\n%s", zeroDiv, errO, src), res
	}
	res.bothCompiled = true
	vO := hx.NewVM("c02opt.mtail", objO, false, nil)
	vU := hx.NewVM("c02raw.mtail", objU, false, nil)
	init := dumpReal(objO)
	if a, b := init, dumpReal(objU); a != b {
		return vstat.Failf("initial-state", "state after load differs:\n%s\n%s", firstDiff(a, b), src), res
	}
	for i, l := range c.Lines {
		eo, eu := hx.RuntimeErrors("c02opt.mtail"), hx.RuntimeErrors("c02raw.mtail")
		hx.Run(vO, "f", l)
		hx.Run(vU, "f", l)
		a, b := dumpReal(objO), dumpReal(objU)
		if a != init {
			res.changed = true
		}
		if a != b {
			return vstat.Failf("result-differs", "after line %d %q optimised vs unoptimised:\n%s\n%s", i, l, strings.Replace(strings.Replace(firstDiff(a, b), "mtail:", "optimised:", 1), "reference:", "unoptimised:", 1), src), res
		}
		do, du := hx.RuntimeErrors("c02opt.mtail")-eo, hx.RuntimeErrors("c02raw.mtail")-eu
		if do != du {
			return vstat.Failf("runtime-error-differs", "line %d %q: optimised raised %d runtime errors, unoptimised %d (%s | %s)\n%s", i, l, do, du, vO.RuntimeErrorString(), vU.RuntimeErrorString(), src), res
		}
	}
	return nil, res
}

var (
	c02Ints   = []int64{0, 1, -1, 2, 3, 7, -7, 10, 1 << 40, 1000000007}
	c02Floats = []float64{0, 0.5, -1.5, 2, 7, 2.5, 1e15, 0.001}
	c02Ops    = []string{"+", "-", "*", "/", "%", "**"}
)

func c02SmallInt(rt *rapid.T) *gen.Expr {
	return &gen.Expr{Op: "lit", Ty: gen.TInt, I: rapid.SampledFrom([]int64{1, 2, 3, 7, 10, 100}).Draw(rt, "si")}
}

func c02Lit(rt *rapid.T, wantFloat bool) *gen.Expr {
	if wantFloat {
		return &gen.Expr{Op: "lit", Ty: gen.TFloat, F: rapid.SampledFrom(c02Floats).Draw(rt, "flit")}
	}
	return &gen.Expr{Op: "lit", Ty: gen.TInt, I: rapid.SampledFrom(c02Ints).Draw(rt, "ilit")}
}

// c02Const draws a constant tree of the wanted static type.
func c02Const(rt *rapid.T, wantFloat bool, d int) *gen.Expr {
	if d >= 3 || rapid.IntRange(0, 3).Draw(rt, "leaf") == 0 {
		return c02Lit(rt, wantFloat)
	}
	op := rapid.SampledFrom(c02Ops).Draw(rt, "op")
	var l, r *gen.Expr
	if !wantFloat {
		l, r = c02Const(rt, false, d+1), c02Const(rt, false, d+1)
	} else {
		switch rapid.IntRange(0, 2).Draw(rt, "mix") {
		case 0:
			l, r = c02Const(rt, true, d+1), c02Const(rt, true, d+1)
		case 1:
			l, r = c02Const(rt, false, d+1), c02Const(rt, true, d+1)
		default:
			l, r = c02Const(rt, true, d+1), c02Const(rt, false, d+1)
		}
	}
	ty := gen.TInt
	if wantFloat {
		ty = gen.TFloat
	}
	e := &gen.Expr{Op: "bin", Ty: ty, Name: op, Args: []*gen.Expr{l, r}}
	if rapid.IntRange(0, 5).Draw(rt, "paren") == 0 {
		return &gen.Expr{Op: "paren", Ty: ty, Args: []*gen.Expr{e}}
	}
	return e
}

func TestC02(t *testing.T) {
	st := vstat.New("C02", "constant expression trees over Int/Float literals (negative, zero, fractional, large) and + - * / % ** (depth <= 3, all Int/Float pairings, redundant parentheses), placed as right side of = and += on Int and Float gauges and of += on counters, as a constant zero factor of an operand that may fail at run time, index key, both sides of comparisons, alone as a condition and after '&&' in one (accepted by both compiles or by neither), strtol base, settime argument, and partially constant trees around captures; 1-3 lines; plus the exhaustive cross product operator x type pair x value grid; optimised vs unoptimised compile of the same source; non-trivial = a foldable node, both compiles succeed, and the statement executes (a metric changes); distinct by (source, lines)")
	st.Assumptions = []string{"the only model is the predicate 'some / or % has a right operand that is a constant evaluating to zero', used to decide whether an optimised-only rejection is allowed"}
	runRaw := func(raw json.RawMessage) *vstat.Failure {
		c, err := vstat.JSON[c02Case](raw)
		if err != nil {
			return vstat.Failf("bad-replay", "%v", err)
		}
		f, _ := runC02(c)
		return f
	}
	st.Run(t, runRaw, func() {
		c02Grid(t, st)
		if t.Failed() {
			return
		}
		st.Check(t, func(rt *rapid.T) {
			var c c02Case
			defer st.Guard(func() any { return c })
			n := rapid.IntRange(1, 3).Draw(rt, "nstmts")
			foldable := 0
			for i := 0; i < n; i++ {
				pos := rapid.SampledFrom([]string{"assign-int", "assign-float", "addassign-int", "addassign-float", "key", "key", "cond", "cond-cap", "strtol-base", "settime", "partial-int", "partial-float", "partial-int", "chain-float", "concat-string", "strcat", "strcmp", "cond-bare", "cond-and-bare", "addassign-counter-int", "addassign-counter-float", "annihilated"}).Draw(rt, "pos")
				s := c02Stmt{Pos: pos}
				capI := &gen.Expr{Op: "cap", Ty: gen.TInt, Name: "i"}
				capF := &gen.Expr{Op: "cap", Ty: gen.TFloat, Name: "f"}
				switch pos {
				case "annihilated":
					// a product with a constant zero: the other operand is still evaluated,
					// and may raise a runtime error (a capture too large for an integer, a
					// division by a captured zero)
					zero := rapid.SampledFrom([]*gen.Expr{
						{Op: "lit", Ty: gen.TInt, I: 0},
						{Op: "paren", Ty: gen.TInt, Args: []*gen.Expr{{Op: "bin", Ty: gen.TInt, Name: "-", Args: []*gen.Expr{{Op: "lit", Ty: gen.TInt, I: 3}, {Op: "lit", Ty: gen.TInt, I: 3}}}}},
						{Op: "paren", Ty: gen.TInt, Args: []*gen.Expr{{Op: "bin", Ty: gen.TInt, Name: "*", Args: []*gen.Expr{{Op: "lit", Ty: gen.TInt, I: 0}, {Op: "lit", Ty: gen.TInt, I: 7}}}}},
					}).Draw(rt, "zero")
					other := rapid.SampledFrom([]*gen.Expr{
						capI,
						{Op: "paren", Ty: gen.TInt, Args: []*gen.Expr{{Op: "bin", Ty: gen.TInt, Name: "/", Args: []*gen.Expr{{Op: "lit", Ty: gen.TInt, I: 100}, capI}}}},
						{Op: "paren", Ty: gen.TInt, Args: []*gen.Expr{{Op: "bin", Ty: gen.TInt, Name: "%", Args: []*gen.Expr{{Op: "lit", Ty: gen.TInt, I: 7}, capI}}}},
					}).Draw(rt, "other")
					if rapid.Bool().Draw(rt, "zerofirst") {
						s.E = &gen.Expr{Op: "bin", Ty: gen.TInt, Name: "*", Args: []*gen.Expr{zero, other}}
					} else {
						s.E = &gen.Expr{Op: "bin", Ty: gen.TInt, Name: "*", Args: []*gen.Expr{other, zero}}
					}
					s.Pos = rapid.SampledFrom([]string{"assign-int", "key"}).Draw(rt, "annpos")
				case "addassign-counter-int":
					s.E = c02Const(rt, false, 0)
				case "addassign-counter-float":
					s.E = c02Const(rt, true, 1)
					if s.E.Op == "lit" {
						s.E = &gen.Expr{Op: "bin", Ty: gen.TFloat, Name: rapid.SampledFrom(c02Ops).Draw(rt, "cfop"), Args: []*gen.Expr{c02Lit(rt, rapid.Bool().Draw(rt, "clf")), c02Lit(rt, true)}}
					}
				case "assign-int", "addassign-int", "strtol-base", "settime":
					s.E = c02Const(rt, false, 0)
				case "assign-float", "addassign-float":
					s.E = c02Const(rt, true, 1)
					if s.E.Op == "lit" {
						s.E = &gen.Expr{Op: "bin", Ty: gen.TFloat, Name: rapid.SampledFrom(c02Ops).Draw(rt, "fop"), Args: []*gen.Expr{c02Lit(rt, rapid.Bool().Draw(rt, "lf")), c02Lit(rt, true)}}
					}
				case "key":
					s.E = c02Const(rt, rapid.Bool().Draw(rt, "keyfloat"), 0)
				case "cond":
					fl := rapid.Bool().Draw(rt, "condfloat")
					s.E, s.E2 = c02Const(rt, fl, 1), c02Const(rt, fl, 1)
					s.Op = rapid.SampledFrom([]string{"<", "<=", ">", ">=", "==", "!="}).Draw(rt, "cop")
				case "cond-bare", "cond-and-bare":
					s.E = c02Const(rt, rapid.Bool().Draw(rt, "barefloat"), 1)
					if s.E.Op == "lit" {
						s.E = &gen.Expr{Op: "bin", Ty: s.E.Ty, Name: rapid.SampledFrom(c02Ops).Draw(rt, "bop"), Args: []*gen.Expr{s.E, c02Lit(rt, s.E.Ty == gen.TFloat)}}
					}
				case "cond-cap":
					s.E = c02Const(rt, false, 1)
					s.Op = rapid.SampledFrom([]string{"<", "<=", ">", ">=", "==", "!="}).Draw(rt, "cop")
				case "partial-int":
					k := c02Const(rt, false, 1)
					op := rapid.SampledFrom(c02Ops).Draw(rt, "pop")
					if rapid.Bool().Draw(rt, "capfirst") {
						s.E = &gen.Expr{Op: "bin", Ty: gen.TInt, Name: op, Args: []*gen.Expr{capI, k}}
					} else {
						s.E = &gen.Expr{Op: "bin", Ty: gen.TInt, Name: op, Args: []*gen.Expr{k, capI}}
					}
					if rapid.Bool().Draw(rt, "chain") {
						s.E = &gen.Expr{Op: "bin", Ty: gen.TInt, Name: rapid.SampledFrom(c02Ops).Draw(rt, "pop2"), Args: []*gen.Expr{s.E, c02Lit(rt, false)}}
					}
					s.Pos = "assign-int"
				case "chain-float":
					// a Float capture followed by two or three INTEGER literals under one
					// operator: regrouping the constants changes the rounding
					op := rapid.SampledFrom([]string{"*", "+", "*", "-", "/"}).Draw(rt, "cop")
					e := &gen.Expr{Op: "bin", Ty: gen.TFloat, Name: op, Args: []*gen.Expr{capF, c02SmallInt(rt)}}
					for k := rapid.IntRange(1, 2).Draw(rt, "links"); k > 0; k-- {
						e = &gen.Expr{Op: "bin", Ty: gen.TFloat, Name: op, Args: []*gen.Expr{e, c02SmallInt(rt)}}
					}
					s.E = e
					s.Pos = "assign-float"
				case "concat-string":
					// a String capture followed by literals under +: concatenation, not addition
					capW := &gen.Expr{Op: "cap", Ty: gen.TString, Name: "w"}
					e := &gen.Expr{Op: "bin", Ty: gen.TString, Name: "+", Args: []*gen.Expr{capW, c02SmallInt(rt)}}
					for k := rapid.IntRange(1, 2).Draw(rt, "links"); k > 0; k-- {
						e = &gen.Expr{Op: "bin", Ty: gen.TString, Name: "+", Args: []*gen.Expr{e, c02SmallInt(rt)}}
					}
					s.E = e
				case "strcat", "strcmp":
					// a constant Float expression whose value prints with an exponent, where
					// the checker converts it to a string
					k := rapid.SampledFrom([]*gen.Expr{
						{Op: "bin", Ty: gen.TFloat, Name: "*", Args: []*gen.Expr{{Op: "lit", Ty: gen.TFloat, F: 2.5}, {Op: "lit", Ty: gen.TInt, I: 1000000}}},
						{Op: "bin", Ty: gen.TFloat, Name: "/", Args: []*gen.Expr{{Op: "bin", Ty: gen.TFloat, Name: "/", Args: []*gen.Expr{{Op: "lit", Ty: gen.TFloat, F: 1.0}, {Op: "lit", Ty: gen.TInt, I: 8}}}, {Op: "lit", Ty: gen.TInt, I: 100000}}},
						{Op: "bin", Ty: gen.TFloat, Name: "+", Args: []*gen.Expr{{Op: "lit", Ty: gen.TFloat, F: 0.5}, {Op: "lit", Ty: gen.TInt, I: 2}}},
						// integer constants next to text: the literal is converted to a string
						{Op: "lit", Ty: gen.TInt, I: 200},
						{Op: "lit", Ty: gen.TInt, I: 5},
						{Op: "bin", Ty: gen.TInt, Name: "*", Args: []*gen.Expr{{Op: "lit", Ty: gen.TInt, I: 100}, {Op: "lit", Ty: gen.TInt, I: 2}}},
						{Op: "bin", Ty: gen.TInt, Name: "-", Args: []*gen.Expr{{Op: "lit", Ty: gen.TInt, I: 7}, {Op: "lit", Ty: gen.TInt, I: 2}}},
					}).Draw(rt, "sk")
					if pos == "strcat" {
						s.E = &gen.Expr{Op: "bin", Ty: gen.TString, Name: "+", Args: []*gen.Expr{{Op: "cap", Ty: gen.TString, Name: "s"}, k}}
					} else {
						s.E = k
						s.Op = rapid.SampledFrom([]string{"==", "!=", "<"}).Draw(rt, "scop")
					}
				case "partial-float":
					k := c02Const(rt, true, 1)
					op := rapid.SampledFrom(c02Ops).Draw(rt, "pop")
					if rapid.Bool().Draw(rt, "capfirst") {
						s.E = &gen.Expr{Op: "bin", Ty: gen.TFloat, Name: op, Args: []*gen.Expr{capF, k}}
					} else {
						s.E = &gen.Expr{Op: "bin", Ty: gen.TFloat, Name: op, Args: []*gen.Expr{k, capF}}
					}
					s.Pos = "assign-float"
				}
				foldable += countFoldable(s.E) + countFoldable(s.E2)
				st.Class("position:" + pos)
				c.Stmts = append(c.Stmts, s)
			}
			nl := rapid.IntRange(1, 3).Draw(rt, "nlines")
			for i := 0; i < nl; i++ {
				c.Lines = append(c.Lines, rapid.SampledFrom([]string{"5 2.5 ff", "0 0.0 10", "3 1.5 7", "junk", "2 0.5 z", "7 0.1 a", "1 9007199254740992.0 b", "99999999999999999999 2.5 w", "0 1.5 zero", "s 2.5e+06", "s 1.25e-06", "s a", "s 2.5", "s 200", "s 5", "s timeout", "s 05"}).Draw(rt, "line"))
			}
			f, res := runC02(c)
			st.Eval()
			if foldable > 0 && res.bothCompiled && res.changed {
				b, _ := json.Marshal(c)
				st.NonTrivial(string(b), map[string]any{"source": c.source(), "lines": c.Lines})
			}
			if !res.bothCompiled {
				st.Class("rejected-by-a-compile")
			}
			st.Report(rt, f, c)
		})
	})
}

// c02Grid: every operator x operand type pair x value grid, as 'g = a op b'.
func c02Grid(t *testing.T, st *vstat.Stats) {
	shard, _ := vstat.Shard()
	if shard != 0 {
		return
	}
	ints := []int64{0, 1, -1, 7, -7, 2}
	floats := []float64{0, 0.5, -1.5, 7, 2}
	var operands []*gen.Expr
	for _, i := range ints {
		operands = append(operands, &gen.Expr{Op: "lit", Ty: gen.TInt, I: i})
	}
	for _, f := range floats {
		operands = append(operands, &gen.Expr{Op: "lit", Ty: gen.TFloat, F: f})
	}
	n := 0
	for _, op := range c02Ops {
		for _, a := range operands {
			for _, b := range operands {
				pos, ty := "assign-int", gen.TInt
				if a.Ty == gen.TFloat || b.Ty == gen.TFloat {
					pos, ty = "assign-float", gen.TFloat
				}
				c := c02Case{Stmts: []c02Stmt{{Pos: pos, E: &gen.Expr{Op: "bin", Ty: ty, Name: op, Args: []*gen.Expr{a, b}}}}, Lines: []string{"5 2.5 ff"}}
				f, res := runC02(c)
				st.Eval()
				n++
				if res.bothCompiled && res.changed {
					st.NonTrivialDistinct(1, map[string]any{"source": c.source()})
				}
				if f != nil {
					st.Violate(t, f, c, "grid")
					if t.Failed() {
						return
					}
				}
			}
		}
	}
	st.ClassN("grid-programs", n)
	st.Extra("exhaustive_scope", "operator {+,-,*,/,%,**} x operands {0,1,-1,7,-7,2} (Int) and {0,0.5,-1.5,7,2} (Float) in all pairings: 726 single-assignment programs")
}
