package lang

import (
	"expvar"
	"fmt"
	"sort"
	"strconv"
	"strings"

	"github.com/google/mtail/internal/runtime/vm"
	"github.com/prometheus/client_golang/prometheus"
	dto "github.com/prometheus/client_model/go"

	"github.com/google/mtail/internal/metrics"
	"github.com/google/mtail/internal/runtime/code"
	"github.com/google/mtail/verif/gen"
	"github.com/google/mtail/verif/hx"
)

// Line is one input line of a case.
type Line struct {
	File string `json:"file"`
	Text string `json:"text"`
}

// ProgCase is a generated program with its input lines.
type ProgCase struct {
	Prog   *gen.Program `json:"prog"`
	Lines  []Line       `json:"lines"`
	Source string       `json:"source"` // printed program, for the reader (regenerated on replay)
}

// dumpReal renders the metric state of a compiled program in the same form
// as gen.Interp.Dump.
func dumpReal(obj *code.Object) string {
	var ms []string
	for _, m := range obj.Metrics {
		ty := map[metrics.Type]string{metrics.Int: "Int", metrics.Float: "Float", metrics.String: "String", metrics.Buckets: "Buckets"}[m.Type]
		var rows []string
		m.RLock()
		for _, lv := range m.LabelValues {
			rows = append(rows, fmt.Sprintf("  %q = %s exp=%d", lv.Labels, hx.DatumString(lv.Value), int64(lv.Expiry)))
		}
		m.RUnlock()
		sort.Strings(rows)
		ms = append(ms, m.Name+" "+ty+"\n"+strings.Join(rows, "\n"))
	}
	sort.Strings(ms)
	return strings.Join(ms, "\n")
}

// firstDiff returns the first differing line of two dumps.
func firstDiff(a, b string) string {
	al, bl := strings.Split(a, "\n"), strings.Split(b, "\n")
	for i := 0; i < len(al) || i < len(bl); i++ {
		var x, y string
		if i < len(al) {
			x = al[i]
		}
		if i < len(bl) {
			y = bl[i]
		}
		if x != y {
			return fmt.Sprintf("mtail: %q\nreference: %q", x, y)
		}
	}
	return ""
}

// hasOtherwiseInElse reports the shape of open finding C01-1: an `otherwise`
// directly in an else block.
func hasOtherwiseInElse(p *gen.Program) bool {
	var walk func(ss []*gen.Stmt) bool
	walk = func(ss []*gen.Stmt) bool {
		for _, s := range ss {
			if s.Op == "cond" && s.HasEls {
				for _, e := range s.Else {
					if e.Op == "otherwise" {
						return true
					}
				}
			}
			if walk(s.Then) || walk(s.Else) {
				return true
			}
		}
		return false
	}
	if walk(p.Stmts) {
		return true
	}
	for _, d := range p.Decos {
		if walk(d.Body) {
			return true
		}
	}
	return false
}

// hasRecursiveDecorator reports the shape of open finding C01-5: a decorator
// used inside its own decorated block.
func hasRecursiveDecorator(p *gen.Program) bool {
	var walk func(ss []*gen.Stmt, active map[string]bool) bool
	walk = func(ss []*gen.Stmt, active map[string]bool) bool {
		for _, s := range ss {
			if s.Op == "deco" {
				if active[s.Deco] {
					return true
				}
				active[s.Deco] = true
				r := walk(s.Then, active)
				delete(active, s.Deco)
				if r {
					return true
				}
				continue
			}
			if walk(s.Then, active) || walk(s.Else, active) {
				return true
			}
		}
		return false
	}
	return walk(p.Stmts, map[string]bool{})
}

// pinsAllTypes reports whether every metric of the program has a write with an
// operand of concrete type (the shape open finding C01-2 is about is a metric
// without one).
func pinsAllTypes(p *gen.Program) bool {
	pinned := map[string]bool{}
	var concrete func(e *gen.Expr) bool
	concrete = func(e *gen.Expr) bool {
		if e == nil {
			return false
		}
		switch e.Op {
		case "lit", "cap":
			return true
		case "mread", "patlit":
			return false
		case "call":
			if e.Name != "int" && e.Name != "float" {
				return true
			}
		}
		for _, a := range e.Args {
			if concrete(a) {
				return true
			}
		}
		return false
	}
	var walk func(ss []*gen.Stmt)
	walk = func(ss []*gen.Stmt) {
		for _, s := range ss {
			switch s.Op {
			case "incr", "dec":
				pinned[s.Metric] = true
			case "assign", "addassign":
				if concrete(s.E) {
					pinned[s.Metric] = true
				}
			}
			walk(s.Then)
			walk(s.Else)
		}
	}
	walk(p.Stmts)
	for _, d := range p.Decos {
		walk(d.Body)
	}
	for _, m := range p.Metrics {
		if !pinned[m.Name] {
			return false
		}
	}
	return true
}

// hasTwoPatternCond reports the shape of open finding C01-3: a condition that
// holds two pattern matches (line pattern and/or match operators).
func hasTwoPatternCond(p *gen.Program) bool {
	var count func(e *gen.Expr) int
	count = func(e *gen.Expr) int {
		if e == nil {
			return 0
		}
		n := 0
		if e.Op == "match" {
			n++
		}
		for _, a := range e.Args {
			n += count(a)
		}
		return n
	}
	var walk func(ss []*gen.Stmt) bool
	walk = func(ss []*gen.Stmt) bool {
		for _, s := range ss {
			if s.Op == "cond" {
				n := count(s.E)
				if s.Pat != nil {
					n++
				}
				if n >= 2 {
					return true
				}
			}
			if walk(s.Then) || walk(s.Else) {
				return true
			}
		}
		return false
	}
	if walk(p.Stmts) {
		return true
	}
	for _, d := range p.Decos {
		if walk(d.Body) {
			return true
		}
	}
	return false
}

// hasMixedMetricRead reports the shape of open finding C01-4: a metric read
// inside an Int/Float mixed arithmetic expression or comparison.
func hasMixedMetricRead(p *gen.Program) bool {
	var hasRead func(e *gen.Expr) bool
	hasRead = func(e *gen.Expr) bool {
		if e == nil {
			return false
		}
		if e.Op == "mread" {
			return true
		}
		for _, a := range e.Args {
			if hasRead(a) {
				return true
			}
		}
		return false
	}
	var walkE func(e *gen.Expr) bool
	walkE = func(e *gen.Expr) bool {
		if e == nil {
			return false
		}
		if e.Op == "bin" && len(e.Args) == 2 {
			a, b := e.Args[0].Ty, e.Args[1].Ty
			if (a == gen.TInt && b == gen.TFloat || a == gen.TFloat && b == gen.TInt) && (hasRead(e.Args[0]) || hasRead(e.Args[1])) {
				return true
			}
		}
		for _, a := range e.Args {
			if walkE(a) {
				return true
			}
		}
		return false
	}
	var walk func(ss []*gen.Stmt) bool
	walk = func(ss []*gen.Stmt) bool {
		for _, s := range ss {
			if walkE(s.E) {
				return true
			}
			for _, k := range s.Keys {
				if walkE(k) {
					return true
				}
			}
			if walk(s.Then) || walk(s.Else) {
				return true
			}
		}
		return false
	}
	if walk(p.Stmts) {
		return true
	}
	for _, d := range p.Decos {
		if walk(d.Body) {
			return true
		}
	}
	return false
}

// expvarMapInt reads an integer from one of mtail's expvar maps.
func expvarMapInt(mapName, key string) int64 {
	m, ok := expvar.Get(mapName).(*expvar.Map)
	if !ok || m == nil {
		return 0
	}
	v := m.Get(key)
	if v == nil {
		return 0
	}
	n, _ := strconv.ParseInt(v.String(), 10, 64)
	return n
}

// processedLines is the number of lines the VM of program name has fully
// processed (sample count of the exported line-processing histogram).
func processedLines(name string) uint64 {
	var m dto.Metric
	h, err := vm.LineProcessingDurations.GetMetricWithLabelValues(name)
	if err != nil {
		return 0
	}
	if err := h.(prometheus.Metric).Write(&m); err != nil {
		return 0
	}
	return m.GetHistogram().GetSampleCount()
}
