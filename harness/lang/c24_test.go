package lang

// C24 — Invalid programs are rejected with a positioned error.

import (
	"encoding/json"
	"fmt"
	"regexp"
	"strconv"
	"strings"
	"sync"
	"testing"
	"time"

	"github.com/google/mtail/internal/logline"
	"github.com/google/mtail/internal/metrics"
	mruntime "github.com/google/mtail/internal/runtime"
	"github.com/google/mtail/verif/gen"
	"github.com/google/mtail/verif/hx"
	"github.com/google/mtail/verif/vstat"
	"pgregory.net/rapid"
)

type c24Case struct {
	Src      vstat.Q `json:"src"`
	Mutation string  `json:"mutation"`
	Context  string  `json:"context"`
}

type c24Sites struct {
	stmts   []*gen.Stmt // all statements
	depth   map[*gen.Stmt]int
	blocks  []*[]*gen.Stmt // all statement lists (for insertion), excluding decorator definition bodies
	bdepth  []int
	exprs   []*gen.Expr
	ints    []**gen.Expr // replaceable Int-typed expression slots
	pats    []*gen.Pattern
	condPat []*gen.Stmt // cond statements with a line pattern that has a named capture
	parents map[*gen.Stmt]*[]*gen.Stmt
}

func collectSites(p *gen.Program) *c24Sites {
	s := &c24Sites{depth: map[*gen.Stmt]int{}, parents: map[*gen.Stmt]*[]*gen.Stmt{}}
	var walkE func(slot **gen.Expr)
	walkE = func(slot **gen.Expr) {
		e := *slot
		if e == nil {
			return
		}
		s.exprs = append(s.exprs, e)
		if e.Ty == gen.TInt && e.Op != "patlit" {
			s.ints = append(s.ints, slot)
		}
		if e.PatV != nil {
			s.pats = append(s.pats, e.PatV)
		}
		for i := range e.Args {
			walkE(&e.Args[i])
		}
	}
	var walk func(list *[]*gen.Stmt, d int, inDef bool)
	walk = func(list *[]*gen.Stmt, d int, inDef bool) {
		if !inDef {
			s.blocks = append(s.blocks, list)
			s.bdepth = append(s.bdepth, d)
		}
		for _, st := range *list {
			s.stmts = append(s.stmts, st)
			s.depth[st] = d
			s.parents[st] = list
			if st.Pat != nil {
				s.pats = append(s.pats, st.Pat)
				for _, t := range st.Pat.Toks {
					if t.Name != "" && st.LogOp != "||" {
						s.condPat = append(s.condPat, st)
						break
					}
				}
			}
			walkE(&st.E)
			for i := range st.Keys {
				walkE(&st.Keys[i])
			}
			if st.Op == "cond" || st.Op == "otherwise" || st.Op == "deco" {
				walk(&st.Then, d+1, inDef)
			}
			if st.Op == "cond" && st.HasEls {
				walk(&st.Else, d+1, inDef)
			}
		}
	}
	walk(&p.Stmts, 0, false)
	for _, d := range p.Decos {
		walk(&d.Body, 1, true)
	}
	return s
}

var c24Mutations = []string{"undeclared-metric", "undefined-capref", "capref-outside-its-block", "undefined-decorator", "next-outside-decorator", "wrong-key-count", "redeclared-name", "redeclared-name-other-kind", "unused-declaration", "unused-declaration-in-block", "invalid-regex", "regex-too-long", "int-division-by-literal-zero"}

// mutate applies one defect-introducing mutation in place; ok=false if the
// program has no eligible site.
func c24Mutate(rt *rapid.T, p *gen.Program, kind string) (ctx string, ok bool) {
	s := collectSites(p)
	pickStmt := func(f func(*gen.Stmt) bool) *gen.Stmt {
		var c []*gen.Stmt
		for _, st := range s.stmts {
			if f(st) {
				c = append(c, st)
			}
		}
		if len(c) == 0 {
			return nil
		}
		return c[rapid.IntRange(0, len(c)-1).Draw(rt, "site")]
	}
	ctxOf := func(d int) string {
		if d == 0 {
			return "top-level"
		}
		return fmt.Sprintf("nested-%d", d)
	}
	insert := func(st *gen.Stmt) string {
		i := rapid.IntRange(0, len(s.blocks)-1).Draw(rt, "block")
		b := s.blocks[i]
		pos := rapid.IntRange(0, len(*b)).Draw(rt, "pos")
		nb := append([]*gen.Stmt{}, (*b)[:pos]...)
		nb = append(nb, st)
		nb = append(nb, (*b)[pos:]...)
		*b = nb
		return ctxOf(s.bdepth[i])
	}
	someWrite := func() *gen.Stmt {
		m := p.Metrics[0]
		var keys []*gen.Expr
		for range m.Keys {
			keys = append(keys, &gen.Expr{Op: "lit", Ty: gen.TString, S: "a"})
		}
		switch m.Ty {
		case gen.TInt:
			return &gen.Stmt{Op: "incr", Metric: m.Name, Keys: keys}
		case gen.TFloat:
			return &gen.Stmt{Op: "assign", Metric: m.Name, Keys: keys, E: &gen.Expr{Op: "lit", Ty: gen.TFloat, F: 1.5}}
		}
		return &gen.Stmt{Op: "assign", Metric: m.Name, Keys: keys, E: &gen.Expr{Op: "lit", Ty: gen.TString, S: "x"}}
	}
	switch kind {
	case "undeclared-metric":
		var reads []*gen.Expr
		for _, e := range s.exprs {
			if e.Op == "mread" {
				reads = append(reads, e)
			}
		}
		if len(reads) > 0 && rapid.Bool().Draw(rt, "inexpr") {
			reads[rapid.IntRange(0, len(reads)-1).Draw(rt, "site")].Name = "undeclared_zz"
			return "expression", true
		}
		st := pickStmt(func(st *gen.Stmt) bool { return st.Metric != "" })
		if st == nil {
			return "", false
		}
		st.Metric = "undeclared_zz"
		return ctxOf(s.depth[st]), true
	case "undefined-capref":
		var caps []*gen.Expr
		for _, e := range s.exprs {
			if e.Op == "cap" {
				caps = append(caps, e)
			}
		}
		if len(caps) == 0 {
			st := pickStmt(func(st *gen.Stmt) bool { return st.Op == "assign" || st.Op == "addassign" })
			if st == nil {
				return "", false
			}
			st.E = &gen.Expr{Op: "cap", Ty: st.E.Ty, Name: "nope"}
			return ctxOf(s.depth[st]), true
		}
		c := caps[rapid.IntRange(0, len(caps)-1).Draw(rt, "site")]
		if rapid.Bool().Draw(rt, "numeric") {
			c.ByNum, c.Num = true, 9
		} else {
			c.ByNum, c.Name = false, "nope"
		}
		return "expression", true
	case "capref-outside-its-block":
		// variant: the capture group belongs to a decorator's pattern and the
		// reference follows the decorated block (in the enclosing block)
		if rapid.Bool().Draw(rt, "afterdeco") {
			type cand struct {
				st     *gen.Stmt
				parent *[]*gen.Stmt
				name   string
			}
			var cands []cand
			hasNext := func(list []*gen.Stmt) bool { return false }
			hasNext = func(list []*gen.Stmt) bool {
				for _, x := range list {
					if x.Op == "next" || hasNext(x.Then) || hasNext(x.Else) {
						return true
					}
				}
				return false
			}
			capOf := map[string]string{} // decorator -> a named capture of a pattern enclosing its next
			for _, d := range p.Decos {
				var find func(list []*gen.Stmt)
				find = func(list []*gen.Stmt) {
					for _, x := range list {
						if x.Op == "cond" && x.Pat != nil && x.LogOp != "||" && hasNext(x.Then) {
							for _, t := range x.Pat.Toks {
								if t.Name != "" {
									capOf[d.Name] = t.Name
								}
							}
						}
						find(x.Then)
					}
				}
				find(d.Body)
			}
			var walk func(list *[]*gen.Stmt, stack []string)
			walk = func(list *[]*gen.Stmt, stack []string) {
				for _, x := range *list {
					if x.Op == "deco" {
						inside := false
						for _, n := range stack {
							if n == x.Deco {
								inside = true
							}
						}
						if n, ok := capOf[x.Deco]; ok && !inside {
							cands = append(cands, cand{x, list, n})
						}
						walk(&x.Then, append(append([]string{}, stack...), x.Deco))
						continue
					}
					if x.Op == "cond" || x.Op == "otherwise" {
						walk(&x.Then, stack)
						if x.HasEls {
							walk(&x.Else, stack)
						}
					}
				}
			}
			walk(&p.Stmts, nil)
			if len(cands) > 0 {
				c := cands[rapid.IntRange(0, len(cands)-1).Draw(rt, "decosite")]
				use := someWrite()
				capE := &gen.Expr{Op: "cap", Ty: gen.TString, Name: c.name}
				switch p.Metrics[0].Ty {
				case gen.TInt:
					use = &gen.Stmt{Op: "addassign", Metric: use.Metric, Keys: use.Keys, E: &gen.Expr{Op: "call", Ty: gen.TInt, Name: "len", Args: []*gen.Expr{capE}}}
				case gen.TFloat:
					use = &gen.Stmt{Op: "assign", Metric: use.Metric, Keys: use.Keys, E: &gen.Expr{Op: "call", Ty: gen.TFloat, Name: "float", Args: []*gen.Expr{{Op: "call", Ty: gen.TInt, Name: "len", Args: []*gen.Expr{capE}}}}}
				default:
					use = &gen.Stmt{Op: "assign", Metric: use.Metric, Keys: use.Keys, E: capE}
				}
				for i, x := range *c.parent {
					if x == c.st {
						nb := append([]*gen.Stmt{}, (*c.parent)[:i+1]...)
						nb = append(nb, use)
						nb = append(nb, (*c.parent)[i+1:]...)
						*c.parent = nb
						break
					}
				}
				return "after-decorated-block", true
			}
		}
		if len(s.condPat) == 0 {
			return "", false
		}
		st := s.condPat[rapid.IntRange(0, len(s.condPat)-1).Draw(rt, "site")]
		name := ""
		for _, t := range st.Pat.Toks {
			if t.Name != "" {
				name = t.Name
			}
		}
		use := someWrite()
		capE := &gen.Expr{Op: "cap", Ty: gen.TString, Name: name}
		switch p.Metrics[0].Ty {
		case gen.TInt:
			use = &gen.Stmt{Op: "addassign", Metric: use.Metric, Keys: use.Keys, E: &gen.Expr{Op: "call", Ty: gen.TInt, Name: "len", Args: []*gen.Expr{capE}}}
		case gen.TFloat:
			use = &gen.Stmt{Op: "assign", Metric: use.Metric, Keys: use.Keys, E: &gen.Expr{Op: "call", Ty: gen.TFloat, Name: "float", Args: []*gen.Expr{{Op: "call", Ty: gen.TInt, Name: "len", Args: []*gen.Expr{capE}}}}}
		default:
			use = &gen.Stmt{Op: "assign", Metric: use.Metric, Keys: use.Keys, E: capE}
		}
		// place it right after the conditional, in the enclosing block (a sibling of the pattern's block)
		parent := s.parents[st]
		for i, x := range *parent {
			if x == st {
				nb := append([]*gen.Stmt{}, (*parent)[:i+1]...)
				nb = append(nb, use)
				nb = append(nb, (*parent)[i+1:]...)
				*parent = nb
				break
			}
		}
		return ctxOf(s.depth[st]), true
	case "undefined-decorator":
		return insert(&gen.Stmt{Op: "deco", Deco: "undefined_zz", Then: []*gen.Stmt{someWrite()}}), true
	case "next-outside-decorator":
		return insert(&gen.Stmt{Op: "next"}), true
	case "wrong-key-count":
		var reads []*gen.Expr
		for _, e := range s.exprs {
			if e.Op == "mread" {
				reads = append(reads, e)
			}
		}
		extra := &gen.Expr{Op: "lit", Ty: gen.TString, S: "extra"}
		if len(reads) > 0 && rapid.Bool().Draw(rt, "inexpr") {
			e := reads[rapid.IntRange(0, len(reads)-1).Draw(rt, "site")]
			if len(e.Args) > 0 && rapid.Bool().Draw(rt, "remove") {
				e.Args = e.Args[:len(e.Args)-1]
			} else {
				e.Args = append(e.Args, extra)
			}
			return "expression", true
		}
		st := pickStmt(func(st *gen.Stmt) bool { return st.Metric != "" })
		if st == nil {
			return "", false
		}
		if len(st.Keys) > 0 && rapid.Bool().Draw(rt, "remove") {
			st.Keys = st.Keys[:len(st.Keys)-1]
		} else {
			st.Keys = append(st.Keys, extra)
		}
		return ctxOf(s.depth[st]), true
	case "redeclared-name":
		switch rapid.IntRange(0, 2).Draw(rt, "what") {
		case 0:
			m := *p.Metrics[rapid.IntRange(0, len(p.Metrics)-1).Draw(rt, "which")]
			p.Metrics = append(p.Metrics, &m)
			return "metric", true
		case 1:
			if len(p.Consts) > 0 {
				c := *p.Consts[0]
				p.Consts = append(p.Consts, &c)
				return "const", true
			}
		default:
			if len(p.Decos) > 0 {
				d := *p.Decos[0]
				p.Decos = append(p.Decos, &d)
				return "decorator", true
			}
		}
		m := *p.Metrics[0]
		p.Metrics = append(p.Metrics, &m)
		return "metric", true
	case "redeclared-name-other-kind":
		// the same name declared twice in one scope as two different kinds of
		// thing; the later declaration is the one the program uses
		var cands []string
		for _, c := range p.Consts {
			cands = append(cands, "const:"+c.Name)
		}
		for _, d := range p.Decos {
			cands = append(cands, "deco:"+d.Name)
		}
		if len(cands) == 0 {
			return "", false
		}
		pick := rapid.SampledFrom(cands).Draw(rt, "which")
		name := pick[strings.Index(pick, ":")+1:]
		if strings.HasPrefix(pick, "deco:") && rapid.Bool().Draw(rt, "constfirst") {
			p.Consts = append(p.Consts, &gen.Const{Name: name, Re: "zz+"})
			return "const-then-decorator", true
		}
		p.Metrics = append(p.Metrics, &gen.Metric{Name: name, Kind: rapid.SampledFrom([]string{"counter", "gauge"}).Draw(rt, "kind")})
		if strings.HasPrefix(pick, "deco:") {
			return "metric-then-decorator", true
		}
		return "metric-then-const", true
	case "unused-declaration":
		switch rapid.IntRange(0, 2).Draw(rt, "what") {
		case 0:
			p.Metrics = append(p.Metrics, &gen.Metric{Name: "unused_zz", Kind: "counter", Hidden: rapid.Bool().Draw(rt, "hidden")})
			return "metric", true
		case 1:
			p.Consts = append(p.Consts, &gen.Const{Name: "UNUSED_ZZ", Re: "zz+"})
			return "const", true
		}
		p.Decos = append(p.Decos, &gen.DecoDef{Name: "unused_zz", Body: []*gen.Stmt{{Op: "cond", Pat: &gen.Pattern{ID: 9999, Toks: []gen.PatTok{{Kind: "lit", Lit: "zz"}}}, Then: []*gen.Stmt{{Op: "next"}}}}})
		return "decorator", true
	case "invalid-regex", "regex-too-long":
		if len(s.pats) == 0 {
			return "", false
		}
		pt := s.pats[rapid.IntRange(0, len(s.pats)-1).Draw(rt, "site")]
		bad := rapid.SampledFrom([]string{"(", "[a-", "a**", `\8`, "(?P<x", "x{3,1}"}).Draw(rt, "bad")
		if rapid.IntRange(0, 3).Draw(rt, "emptyblock") == 0 {
			// the defective pattern guards a block with nothing in it
			if kind == "regex-too-long" {
				bad = strings.Repeat("a", 1100)
				if rapid.Bool().Draw(rt, "multibyte") {
					bad = strings.Repeat("\u00e9", 600) // 1200 bytes in 600 characters
				}
			}
			return insert(&gen.Stmt{Op: "cond", Pat: &gen.Pattern{ID: 9998, Toks: []gen.PatTok{{Kind: "lit", Lit: "zz" + bad}}}}) + ":empty-block", true
		}
		if kind == "regex-too-long" {
			switch rapid.IntRange(0, 2).Draw(rt, "longform") {
			case 0:
				bad = strings.Repeat("a", 1100)
				if rapid.Bool().Draw(rt, "multibyte2") {
					bad = strings.Repeat("\u00e9", 600) // the limit is in bytes
				}
			case 1:
				// two literals, each within the limit, concatenated with +
				pt.Toks = append(pt.Toks, gen.PatTok{Kind: "lit", Lit: strings.Repeat("a", 600)})
				pt.Split = append(pt.Split, len(pt.Toks))
				pt.Toks = append(pt.Toks, gen.PatTok{Kind: "lit", Lit: strings.Repeat("b", 600)})
				return "pattern-concatenation", true
			default:
				// two const fragments, each within the limit
				p.Consts = append(p.Consts, &gen.Const{Name: "LONGA", Re: strings.Repeat("a", 600), Inst: strings.Repeat("a", 600)}, &gen.Const{Name: "LONGB", Re: strings.Repeat("b", 600), Inst: strings.Repeat("b", 600)})
				pt.Toks = append(pt.Toks, gen.PatTok{Kind: "const", Lit: "LONGA"}, gen.PatTok{Kind: "const", Lit: "LONGB"})
				return "pattern-const-fragments", true
			}
		}
		pt.Toks = append(pt.Toks, gen.PatTok{Kind: "lit", Lit: bad})
		return "pattern", true
	case "int-division-by-literal-zero":
		if len(s.ints) == 0 {
			return "", false
		}
		slot := s.ints[rapid.IntRange(0, len(s.ints)-1).Draw(rt, "site")]
		op := rapid.SampledFrom([]string{"/", "%"}).Draw(rt, "op")
		*slot = &gen.Expr{Op: "bin", Ty: gen.TInt, Name: op, Args: []*gen.Expr{*slot, {Op: "lit", Ty: gen.TInt, I: 0}}}
		return "expression", true
	}
	return "", false
}

var reErrPos = regexp.MustCompile(`^([^:\s]+):(\d+):(\d+)(?:-(\d+))?: `)

func positionInside(errText, src string) (bool, string) {
	lines := strings.Split(src, "\n")
	if len(lines) > 0 && lines[len(lines)-1] == "" {
		lines = lines[:len(lines)-1]
	}
	seen := 0
	for _, el := range strings.Split(errText, "\n") {
		m := reErrPos.FindStringSubmatch(el)
		if m == nil {
			continue
		}
		seen++
		ln, _ := strconv.Atoi(m[2])
		col, _ := strconv.Atoi(m[3])
		if ln >= 1 && ln <= len(lines) && col >= 1 && col <= len(lines[ln-1])+1 {
			return true, ""
		}
	}
	return false, fmt.Sprintf("%d positioned error lines, none inside the %d-line source", seen, len(lines))
}

var c24seq int

func runC24(c c24Case) *vstat.Failure {
	return vstat.CatchBounded(60*time.Second, func() *vstat.Failure { return runC24x(c) })
}

func runC24x(c c24Case) *vstat.Failure {
	src := string(c.Src)
	sigc := c.Mutation
	obj, err := hx.Compile("c24.mtail", src)
	if err == nil || obj != nil {
		return vstat.Failf("invalid-program-accepted:"+sigc, "a program with the defect %q (%s) compiles:\n%s", c.Mutation, c.Context, src)
	}
	if strings.TrimSpace(err.Error()) == "" {
		return vstat.Failf("empty-error:"+sigc, "rejected without an error message")
	}
	if ok, why := positionInside(err.Error(), src); !ok {
		return vstat.Failf("error-position:"+sigc, "%s; errors:\n%s\n--- program\n%s", why, err, src)
	}
	// the loader must not load it
	c24seq++
	name := fmt.Sprintf("c24-%d.mtail", c24seq%50)
	store := metrics.NewStore()
	lines := make(chan *logline.LogLine)
	var wg sync.WaitGroup
	r, rerr := mruntime.New(lines, &wg, "", store)
	if rerr != nil {
		return vstat.Failf("harness", "runtime.New: %v", rerr)
	}
	defer func() {
		close(lines)
		wg.Wait()
	}()
	le0 := expvarMapInt("prog_load_errors_total", name)
	lo0 := expvarMapInt("prog_loads_total", name)
	lerr := r.CompileAndRun(name, strings.NewReader(src))
	if lerr == nil {
		return vstat.Failf("loader-accepts:"+sigc, "CompileAndRun returned nil for an invalid program\n%s", src)
	}
	if d := expvarMapInt("prog_load_errors_total", name) - le0; d != 1 {
		return vstat.Failf("load-error-count:"+sigc, "prog_load_errors_total moved by %d", d)
	}
	if d := expvarMapInt("prog_loads_total", name) - lo0; d != 0 {
		return vstat.Failf("load-count:"+sigc, "prog_loads_total moved by %d for a rejected program", d)
	}
	n := 0
	_ = store.Range(func(*metrics.Metric) error { n++; return nil })
	if n != 0 {
		return vstat.Failf("metrics-registered:"+sigc, "%d metrics registered by a rejected program", n)
	}
	before := processedLines(name)
	select {
	case lines <- logline.New(nil, "f", "foo 1 2.5 bar"):
	case <-time.After(5 * time.Second):
		return vstat.Failf("loader-stalls", "line not accepted by the loader")
	}
	time.Sleep(200 * time.Microsecond)
	if processedLines(name) != before {
		return vstat.Failf("rejected-program-runs:"+sigc, "a line was processed by the rejected program")
	}
	return nil
}

func TestC24(t *testing.T) {
	st := vstat.New("C24", "a well-typed program from G plus ONE defect-introducing mutation at a random eligible site: undeclared metric (statement or expression), undefined capture reference ($9 / $nope), capture reference moved outside its pattern's block, undefined decorator, next outside a decorator, wrong number of index keys (added, removed, on a scalar), redeclared metric/const/decorator, unused metric/const/decorator, invalid regular expression, regular expression over the length limit, integer / or % by the literal 0; sites at top level, nested blocks, else blocks, decorator bodies and decorated blocks, index expressions, builtin arguments, conditions. non-trivial = mutation applied below the top level; distinct by mutated source")
	st.Assumptions = []string{"each mutation is invalid by the reference in its context (a capture reference moved to a sibling block of its pattern, not into the pattern's own else block)", "'never loaded' is observed through runtime.CompileAndRun: error, load-error counter +1, no metric registered, a following line not processed under that name"}
	runRaw := func(raw json.RawMessage) *vstat.Failure {
		c, err := vstat.JSON[c24Case](raw)
		if err != nil {
			return vstat.Failf("bad-replay", "%v", err)
		}
		return runC24(c)
	}
	st.Run(t, runRaw, func() {
		feats := gen.AllFeatures()
		feats.PinTypes, feats.OnePatternPerCond, feats.NoMixedMetricReads, feats.NoRecursiveDecorators, feats.OtherwiseInElse = true, true, true, true, false
		st.Check(t, func(rt *rapid.T) {
			var c c24Case
			defer st.Guard(func() any { return c })
			g := gen.GenProgram(rt, feats)
			// the unmutated program must be fine, otherwise the mutation proves nothing
			if _, err := hx.Compile("c24base.mtail", g.P.Source()); err != nil {
				st.Class("base-program-rejected")
				rt.Skip("base program rejected")
			}
			kind := rapid.SampledFrom(c24Mutations).Draw(rt, "mutation")
			var ctx string
			var ok bool
			src := ""
			if kind == "unused-declaration-in-block" {
				// a declaration nothing uses, placed INSIDE a block (decorator
				// definition, condition block, else block): inserted in the text,
				// as G declares metrics at the top only
				lines := strings.Split(g.P.Source(), "\n")
				var sites []int
				for i, l := range lines {
					if strings.HasSuffix(l, "{") {
						sites = append(sites, i)
					}
				}
				if len(sites) > 0 {
					at := sites[rapid.IntRange(0, len(sites)-1).Draw(rt, "blocksite")]
					decl := rapid.SampledFrom([]string{"counter unused_zz", "hidden gauge unused_zz", "const UNUSED_ZZ /zz+/", "counter unused_zz by k"}).Draw(rt, "udecl")
					head := strings.TrimSpace(lines[at])
					switch {
					case strings.HasPrefix(head, "def "):
						ctx = "decorator-definition"
					case strings.Contains(head, "else"):
						ctx = "else-block"
					case strings.HasPrefix(head, "@"):
						ctx = "decorated-block"
					default:
						ctx = "nested-block"
					}
					ind := lines[at][:len(lines[at])-len(strings.TrimLeft(lines[at], " "))] + "  "
					lines = append(lines[:at+1], append([]string{ind + decl}, lines[at+1:]...)...)
					src, ok = strings.Join(lines, "\n"), true
				}
			} else {
				ctx, ok = c24Mutate(rt, g.P, kind)
				src = g.P.Source()
			}
			if !ok {
				st.Class("no-site:" + kind)
				rt.Skip("no eligible site")
			}
			c = c24Case{Src: vstat.Q(src), Mutation: kind, Context: ctx}
			st.Eval()
			st.Class("mutation:" + kind)
			st.Class("context:" + ctx)
			if ctx != "top-level" && ctx != "metric" && ctx != "const" && ctx != "decorator" {
				st.NonTrivial(string(c.Src), c)
			}
			st.Report(rt, runC24(c), c)
		})
	})
}
