package lang

// C01 — Compiled programs compute what the language reference says.

import (
	"encoding/json"
	"strings"
	"testing"

	"github.com/google/mtail/verif/gen"
	"github.com/google/mtail/verif/hx"
	"github.com/google/mtail/verif/vstat"
	"pgregory.net/rapid"
)

type c01Result struct {
	outside  string
	matched  bool // some line changed some metric
	rtErrors int
}

func runC01(c ProgCase) (*vstat.Failure, c01Result) {
	var res c01Result
	f := vstat.Catch(func() *vstat.Failure {
		var ff *vstat.Failure
		ff, res = runC01x(c)
		return ff
	})
	return f, res
}

func runC01x(c ProgCase) (*vstat.Failure, c01Result) {
	var res c01Result
	src := c.Prog.Source()
	const name = "c01.mtail"
	trait := ""
	if hasOtherwiseInElse(c.Prog) {
		trait = ":otherwise-in-else"
	} else if hasRecursiveDecorator(c.Prog) {
		trait = ":decorator-nested-in-itself"
	}
	obj, err := hx.Compile(name, src)
	if err != nil {
		if strings.Contains(err.Error(), "Internal compiler error") && strings.Contains(err.Error(), "typeVar") && !pinsAllTypes(c.Prog) {
			trait = ":untyped-metric"
		}
		if strings.Contains(err.Error(), "Redeclaration of capture group `0'") && hasTwoPatternCond(c.Prog) {
			trait = ":two-patterns-in-condition"
		}
		return vstat.Failf("compile-rejected"+trait, "well-typed program rejected: %v\n%s", err, src), res
	}
	v := hx.NewVM(name, obj, false, nil)
	ref := gen.NewInterp(c.Prog)
	e0 := hx.RuntimeErrors(name)
	if a, b := dumpReal(obj), ref.Dump(); a != b {
		if d := firstDiff(a, b); (strings.Contains(d, " Int\"") || strings.Contains(d, " Float\"")) && hasMixedMetricRead(c.Prog) {
			trait = ":type-inference-order:mixed-metric-read"
		}
		return vstat.Failf("initial-state"+trait, "state after load differs:\n%s\n--- program\n%s", firstDiff(a, b), src), res
	}
	prev := ref.Dump()
	for i, l := range c.Lines {
		if out := ref.ProcessLine(l.File, l.Text); out != "" {
			res.outside = out
			return nil, res
		}
		hx.Run(v, l.File, l.Text)
		want := ref.Dump()
		if want != prev {
			res.matched = true
		}
		prev = want
		got := dumpReal(obj)
		gotErrs := int(hx.RuntimeErrors(name) - e0)
		res.rtErrors = ref.Errors
		if got != want {
			return vstat.Failf("state-mismatch"+trait, "after line %d %q:\n%s\nruntime error text: %s\n--- program\n%s", i, l.Text, firstDiff(got, want), strings.SplitN(v.RuntimeErrorString(), "\n", 2)[0], src), res
		}
		if gotErrs != ref.Errors {
			return vstat.Failf("error-count-mismatch"+trait, "after line %d %q: mtail raised %d runtime errors, reference %d (last: %s)\n--- program\n%s", i, l.Text, gotErrs, ref.Errors, strings.SplitN(v.RuntimeErrorString(), "\n", 2)[0], src), res
		}
	}
	return nil, res
}

func c01RunRaw(raw json.RawMessage) *vstat.Failure {
	c, err := vstat.JSON[ProgCase](raw)
	if err != nil || c.Prog == nil {
		return vstat.Failf("bad-replay", "%v", err)
	}
	f, _ := runC01(c)
	return f
}

func genCase(rt *rapid.T, f gen.Features, maxLines int) (ProgCase, *gen.G) {
	g := gen.GenProgram(rt, f)
	var c ProgCase
	c.Prog = g.P
	n := rapid.IntRange(1, maxLines).Draw(rt, "nlines")
	files := []string{"/var/log/a.log", "b.log"}
	for i := 0; i < n; i++ {
		c.Lines = append(c.Lines, Line{File: files[rapid.IntRange(0, 1).Draw(rt, "file")], Text: g.GenLine()})
	}
	c.Source = c.Prog.Source()
	return c, g
}

func TestC01(t *testing.T) {
	st := vstat.New("C01", "programs from the typed grammar G (declarations incl. hidden/dimensioned/as/limit/text/timer; pattern, relational and pattern-&&/||-expression conditions; nested conditionals with else/otherwise; decorators with statements around next; every binary operator with minimal and redundant parentheses; builtins; del, del-after, stop) x 1-12 lines instantiated from the program's own patterns (matching, mutated, token soup, empty); after EVERY line the complete metric state (hidden metrics included) and the runtime-error count are compared with the reference interpreter R; non-trivial = at least one line changed at least one metric; distinct by (source, lines)")
	st.Assumptions = []string{
		"R implements DESIGN.md appendix A (written from docs/Language.md); cases that leave its envelope (integers beyond 2^53, float-to-string outside short decimals, NaN comparisons) are skipped and counted",
		"existence conventions: a scalar counter exists with 0 from load; any other datum exists from its first read or write",
		"timestamps are not compared here (C07)",
	}
	st.Run(t, c01RunRaw, func() {
		feats := gen.AllFeatures()
		if st.IsLive("C01-1") {
			feats.OtherwiseInElse = false
		}
		if st.IsLive("C01-5") {
			feats.NoRecursiveDecorators = true
		}
		if st.IsLive("C01-2") {
			feats.PinTypes = true
		}
		if st.IsLive("C01-3") {
			feats.OnePatternPerCond = true
		}
		if st.IsLive("C01-4") {
			feats.NoMixedMetricReads = true
		}
		st.Check(t, func(rt *rapid.T) {
			var c ProgCase
			defer st.Guard(func() any { return c })
			var g *gen.G
			c, g = genCase(rt, feats, 12)
			if !feats.OtherwiseInElse {
				st.Excluded("C01-1")
			}
			if feats.NoRecursiveDecorators {
				st.Excluded("C01-5")
			}
			if feats.PinTypes {
				st.Excluded("C01-2")
			}
			if feats.OnePatternPerCond {
				st.Excluded("C01-3")
			}
			if feats.NoMixedMetricReads {
				st.Excluded("C01-4")
			}
			f, res := runC01(c)
			st.Eval()
			if res.outside != "" {
				st.Class("outside-envelope")
				st.Class("outside: " + res.outside)
				rt.Skip("outside the reference's envelope: " + res.outside)
			}
			if res.matched {
				b, _ := json.Marshal(c)
				st.NonTrivial(string(b), c)
				for k := range g.Classes {
					st.Class(k)
				}
				if res.rtErrors > 0 {
					st.Class("has-runtime-error-line")
				}
			}
			st.Report(rt, f, c)
		})
	})
}
