package lang

// C05 — A line's effect never depends on earlier lines except through metrics.

import (
	"encoding/json"
	"fmt"
	"sort"
	"strings"
	"testing"
	"time"

	"github.com/google/mtail/internal/metrics"
	"github.com/google/mtail/internal/metrics/datum"
	"github.com/google/mtail/internal/runtime/code"
	"github.com/google/mtail/verif/gen"
	"github.com/google/mtail/verif/hx"
	"github.com/google/mtail/verif/vstat"
	"pgregory.net/rapid"
)

type c05Case struct {
	Src     vstat.Q   `json:"src"`
	History []vstat.Q `json:"history"`
	Probe   vstat.Q   `json:"probe"`
	// CurrentYear: the VMs run with the syslog-use-current-year option
	CurrentYear bool `json:"current_year,omitempty"`
	// GcAfter: indices of history lines after which the store's garbage
	// collector runs (it removes expired label values behind the VM's back)
	GcAfter []int `json:"gc_after,omitempty"`
}

type c05Row struct {
	metric string
	labels string
	val    string
	exp    int64
	timeNs int64
}

func c05Rows(obj *code.Object) map[string]c05Row {
	out := map[string]c05Row{}
	for _, m := range obj.Metrics {
		m.RLock()
		for _, lv := range m.LabelValues {
			r := c05Row{metric: m.Name, labels: fmt.Sprintf("%q", lv.Labels), val: hx.DatumString(lv.Value), exp: int64(lv.Expiry), timeNs: lv.Value.TimeUTC().UnixNano()}
			out[r.metric+r.labels] = r
		}
		m.RUnlock()
	}
	return out
}

// installState copies the metric state of a into the fresh program b.
func installState(a, b *code.Object) error {
	if len(a.Metrics) != len(b.Metrics) {
		return fmt.Errorf("metric count differs")
	}
	for i, ma := range a.Metrics {
		mb := b.Metrics[i]
		if ma.Name != mb.Name || ma.Type != mb.Type || len(ma.Keys) != len(mb.Keys) {
			return fmt.Errorf("metric %d differs", i)
		}
		// start from a's exact set of label values
		for _, lv := range append([]*metrics.LabelValue(nil), mb.LabelValues...) {
			_ = mb.RemoveDatum(lv.Labels...)
		}
		for _, lv := range ma.LabelValues {
			d, err := mb.GetDatum(lv.Labels...)
			if err != nil {
				return err
			}
			ts := lv.Value.TimeUTC()
			switch v := lv.Value.(type) {
			case *datum.Int:
				datum.SetInt(d, v.Get(), ts)
			case *datum.Float:
				datum.SetFloat(d, v.Get(), ts)
			case *datum.String:
				datum.SetString(d, v.Get(), ts)
			case *datum.Buckets:
				bd := datum.GetBuckets(d)
				v.RLock()
				bd.Lock()
				bd.Buckets = append([]datum.BucketCount(nil), v.Buckets...)
				bd.Count, bd.Sum = v.Count, v.Sum
				bd.Time = v.Time
				bd.Unlock()
				v.RUnlock()
			default:
				return fmt.Errorf("unsupported datum %T", v)
			}
			if lv.Expiry != 0 {
				if err := mb.ExpireDatum(lv.Expiry, lv.Labels...); err != nil {
					return err
				}
			}
		}
	}
	return nil
}

type c05Res struct {
	accepted bool
	outside  string
	special  bool
	gc       bool
}

func runC05(c c05Case) (*vstat.Failure, c05Res) {
	var res c05Res
	f := vstat.Catch(func() *vstat.Failure {
		var ff *vstat.Failure
		// A program may store the wall clock in a value (timestamp() with no time
		// set): the two runs of a case can then fall into different seconds. A
		// genuine dependence on history fails every time; clock noise does not
		// survive three immediate repetitions (each takes well under a millisecond).
		for attempt := 0; attempt < 3; attempt++ {
			ff, res = runC05x(c)
			if ff == nil || ff.Sig == "panic" {
				break
			}
		}
		return ff
	})
	return f, res
}

func runC05x(c c05Case) (*vstat.Failure, c05Res) {
	var res c05Res
	src := string(c.Src)
	objA, err := hx.Compile("c05a.mtail", src)
	if err != nil {
		return nil, res
	}
	objB, err := hx.Compile("c05b.mtail", src)
	if err != nil {
		return vstat.Failf("nondeterministic-verdict", "second compile rejects: %v", err), res
	}
	res.accepted = true
	va := hx.NewVM("c05a.mtail", objA, c.CurrentYear, nil)
	vb := hx.NewVM("c05b.mtail", objB, c.CurrentYear, nil)
	var storeA *metrics.Store
	if len(c.GcAfter) > 0 {
		storeA = metrics.NewStore()
		for _, m := range objA.Metrics {
			if !m.Hidden {
				if err := storeA.Add(m); err != nil {
					return vstat.Failf("harness", "store: %v", err), res
				}
			}
		}
	}
	for i, h := range c.History {
		hx.Run(va, "/var/log/x.log", string(h))
		for _, g := range c.GcAfter {
			if g == i {
				time.Sleep(2 * time.Millisecond) // let 1 ms expiries pass
				if err := storeA.Gc(); err != nil {
					return vstat.Failf("harness", "gc: %v", err), res
				}
				res.gc = true
			}
		}
	}
	if err := installState(objA, objB); err != nil {
		res.outside = err.Error()
		return nil, res
	}
	preA := c05Rows(objA)
	if a, b := dumpReal(objA), dumpReal(objB); a != b {
		return vstat.Failf("harness-install", "installed state differs: %s", firstDiff(a, b)), res
	}
	ea0, eb0 := hx.RuntimeErrors("c05a.mtail"), hx.RuntimeErrors("c05b.mtail")
	t0 := time.Now().Add(-2 * time.Second).UnixNano()
	hx.Run(va, "/var/log/x.log", string(c.Probe))
	hx.Run(vb, "/var/log/x.log", string(c.Probe))
	t1 := time.Now().Add(2 * time.Second).UnixNano()
	ea, eb := hx.RuntimeErrors("c05a.mtail")-ea0, hx.RuntimeErrors("c05b.mtail")-eb0
	desc := func() string {
		return fmt.Sprintf("history %q, line %q\n--- program\n%s", c.History, c.Probe, src)
	}
	if ea != eb {
		return vstat.Failf("runtime-error-depends-on-history", "with history the line raised %d runtime errors (%s), in a fresh copy with the same metric values %d (%s)\n%s", ea, firstLineOf(va.RuntimeErrorString()), eb, firstLineOf(vb.RuntimeErrorString()), desc()), res
	}
	if a, b := dumpReal(objA), dumpReal(objB); a != b {
		return vstat.Failf("effect-depends-on-history", "metric state after the line differs (with history vs fresh copy):\n%s\n%s", strings.Replace(strings.Replace(firstDiff(a, b), "mtail:", "with history:", 1), "reference:", "fresh copy:", 1), desc()), res
	}
	// timestamps of the data the line touched
	ra, rb := c05Rows(objA), c05Rows(objB)
	var keys []string
	for k := range ra {
		keys = append(keys, k)
	}
	sort.Strings(keys)
	for _, k := range keys {
		a, b := ra[k], rb[k]
		if p, ok := preA[k]; ok && p.timeNs == a.timeNs && p.val == a.val {
			continue // untouched by the line
		}
		wallA := a.timeNs >= t0 && a.timeNs <= t1
		wallB := b.timeNs >= t0 && b.timeNs <= t1
		if a.timeNs != b.timeNs && !(wallA && wallB) {
			return vstat.Failf("timestamp-depends-on-history", "datum %s%s stamped %v with history, %v in a fresh copy\n%s", a.metric, a.labels, time.Unix(0, a.timeNs).UTC(), time.Unix(0, b.timeNs).UTC(), desc()), res
		}
	}
	return nil, res
}

func firstLineOf(s string) string { return strings.SplitN(s, "\n", 2)[0] }

func TestC05(t *testing.T) {
	st := vstat.New("C05", "programs from G biased towards per-line state (strptime on captured timestamps under one of two layouts, settime, timestamp(), stop, failing conversions, short-circuit conditions with match operators), a history of 0-10 lines (with a store GC pass after some of them when the program marks label values for expiry) and a probe line that shares material with the history (an exact repeat, the same timestamp text, the line that hit stop or a failing conversion) in most cases; run A = history then probe on one VM; run B = fresh compile whose metrics are set to A's pre-probe state through the datum API, then the probe; effects, error flag and timestamps of the data the probe touched must agree. non-trivial = non-empty history, and the program uses a time builtin, stop or a conversion, and the probe shares a token with the history; distinct by (source, history, probe)")
	st.Assumptions = []string{"B's pre-state is copied from A's real state (values, timestamps, expiry marks), so the relation is exactly the statement's", "timestamps of touched data must be equal, or both lie within the wall-clock bracket of the probe"}
	runRaw := func(raw json.RawMessage) *vstat.Failure {
		c, err := vstat.JSON[c05Case](raw)
		if err != nil {
			return vstat.Failf("bad-replay", "%v", err)
		}
		f, _ := runC05(c)
		return f
	}
	st.Run(t, runRaw, func() {
		feats := gen.AllFeatures()
		feats.TimeBuiltins = true
		feats.ShortExpiry = true
		// C05 is differential (same program, with and without history), so constructs
		// that fault in the VM are welcome: a fault is a runtime error on both sides
		feats.Histograms, feats.HistIncr, feats.MixedWrites, feats.Unary, feats.StringNumberCompare, feats.NonBoolCond = true, true, true, true, true, true
		feats.PinTypes, feats.OnePatternPerCond, feats.NoMixedMetricReads, feats.NoRecursiveDecorators = true, true, true, true
		memoLive := st.IsLive("C05-1")
		st.Check(t, func(rt *rapid.T) {
			var c c05Case
			defer st.Guard(func() any { return c })
			g := gen.GenProgram(rt, feats)
			src := g.P.Source()
			var tmplLines []string
			if rapid.IntRange(0, 9).Draw(rt, "template") < 4 {
				src, tmplLines = c05Template(rt)
				st.Class("template-program")
			}
			if memoLive && strings.Contains(src, "strptime(") {
				// open finding: the strptime memo. Keep the rest of the search going
				// by making every line's timestamp text unique is not possible here, so
				// strptime programs are left to the probe while it is open.
				st.Excluded("C05-1")
				rt.Skip("strptime excluded while C05-1 is open")
			}
			c.Src = vstat.Q(src)
			if strings.Contains(src, "strptime(") && rapid.Bool().Draw(rt, "currentyear") {
				c.CurrentYear = true
				st.Class("syslog-use-current-year")
			}
			nh := rapid.IntRange(0, 10).Draw(rt, "nhist")
			var hist []string
			line := func() string {
				if tmplLines != nil {
					return rapid.SampledFrom(tmplLines).Draw(rt, "tline")
				}
				return g.GenLine()
			}
			for i := 0; i < nh; i++ {
				hist = append(hist, line())
			}
			probe := line()
			shares := false
			if nh > 0 {
				switch rapid.IntRange(0, 9).Draw(rt, "share") {
				case 0, 1, 2, 3, 4:
					probe = hist[rapid.IntRange(0, nh-1).Draw(rt, "rep")]
					shares = true
				case 5, 6:
					// same first token, different rest
					h := strings.Fields(hist[rapid.IntRange(0, nh-1).Draw(rt, "rep2")])
					p := strings.Fields(probe)
					if len(h) > 0 && len(p) > 0 {
						p[0] = h[0]
						probe = strings.Join(p, " ")
						shares = true
					}
				}
				if !shares {
					ht := map[string]bool{}
					for _, h := range hist {
						for _, f := range strings.Fields(h) {
							ht[f] = true
						}
					}
					for _, f := range strings.Fields(probe) {
						if ht[f] {
							shares = true
						}
					}
				}
			}
			for _, h := range hist {
				c.History = append(c.History, vstat.Q(h))
			}
			if nh > 0 && strings.Contains(src, " after ") && rapid.Bool().Draw(rt, "gc") {
				ng := rapid.IntRange(1, 2).Draw(rt, "ngc")
				for k := 0; k < ng; k++ {
					c.GcAfter = append(c.GcAfter, rapid.IntRange(0, nh-1).Draw(rt, "gcat"))
				}
				st.Class("gc-pass-inside-the-history")
			}
			c.Probe = vstat.Q(probe)
			f, res := runC05(c)
			st.Eval()
			special := strings.Contains(src, "strptime(") || strings.Contains(src, "settime(") || strings.Contains(src, "timestamp()") || strings.Contains(src, "stop\n") || strings.Contains(src, "int(") || strings.Contains(src, "float(") || strings.Contains(src, "strtol(")
			if res.accepted && nh > 0 && special && shares {
				b, _ := json.Marshal(c)
				st.NonTrivial(string(b), c)
				for _, k := range []string{"strptime(", "settime(", "timestamp()", "stop\n"} {
					if strings.Contains(src, k) {
						st.Class("uses " + strings.TrimSpace(k))
					}
				}
			}
			if !res.accepted {
				st.Class("rejected")
			}
			st.Report(rt, f, c)
		})
	})
}

// c05Template draws one of a few program shapes built around per-line state.
func c05Template(rt *rapid.T) (string, []string) {
	switch rapid.IntRange(0, 6).Draw(rt, "tmpl") {
	case 6:
		// label values that expire at once: a GC pass inside the history removes
		// them, and a later line addresses the same label values again
		return "counter logins by user\ncounter lines\n/^login (?P<u>\\w+)$/ {\n  logins[$u]++\n  del logins[$u] after 1ms\n  lines++\n}\n/^logout (?P<u>\\w+)$/ {\n  del logins[$u]\n  lines++\n}\n",
			[]string{"login alice", "login bob", "logout alice", "login alice", "logout carol", "login carol"}
	case 4:
		// a year-less layout (the current-year option rewrites the parsed instant)
		lay := rapid.SampledFrom([]string{"Jan _2 15:04:05", "Jan  2 15:04:05", "02/Jan 15:04"}).Draw(rt, "yl")
		return "gauge g\ncounter n\n/^(?P<ts>\\w+ +\\d+ [\\d:]+) (?P<w>\\w+)$/ {\n  strptime($ts, \"" + lay + "\")\n  g = timestamp()\n  n++\n}\n/^(?P<ts2>\\d+\\/\\w+ [\\d:]+) (?P<w2>\\w+)$/ {\n  strptime($ts2, \"" + lay + "\")\n  g = timestamp()\n  n++\n}\n",
			[]string{"Jul 24 10:14:11 a", "Jul 24 10:14:11 b", "Jul  4 10:14:11 a", "Dec 31 23:59:59 x", "24/Jul 10:14 a", "24/Jul 10:14 b", "Jul 24 10:14:11 a"}
	case 5:
		// the same text converted under different bases / by different conversions
		b1 := rapid.SampledFrom([]string{"16", "10", "8", "2"}).Draw(rt, "b1")
		b2 := rapid.SampledFrom([]string{"16", "10", "8", "2"}).Draw(rt, "b2")
		return "gauge x\ngauge y\ngauge z\ncounter n\n/^a (\\S+)$/ {\n  x = strtol($1, " + b1 + ")\n  n++\n}\n/^b (\\S+)$/ {\n  y = strtol($1, " + b2 + ")\n  n++\n}\n/^c (\\S+)$/ {\n  z = int($1)\n  n++\n}\n",
			[]string{"a 100", "b 100", "c 100", "a ff", "b ff", "c ff", "a 17", "b 17", "c 17", "a 101", "b 101", "c 8", "a 8", "b 8"}
	case 0:
		op := rapid.SampledFrom([]string{"||", "&&"}).Draw(rt, "sc")
		cmp := rapid.SampledFrom([]string{"==", "!="}).Draw(rt, "cmp")
		return "counter ids by id\ncounter other\n/^(?P<kind>\\w+) (?P<rest>.*)$/ {\n  $kind " + cmp + " \"skip\" " + op + " $rest =~ /id=(?P<id>\\d+)/ {\n    ids[$id]++\n  }\n  other++\n}\n",
			[]string{"get id=5", "skip id=7", "skip x", "get x", "put id=5", "nonsense"}
	case 1:
		l1 := rapid.SampledFrom([]string{"20060102T15:04", "20060201T15:04"}).Draw(rt, "l1")
		l2 := rapid.SampledFrom([]string{"20060102T15:04", "20060201T15:04"}).Draw(rt, "l2")
		return "gauge g\ncounter n\n/^(?P<ts>\\d+T\\d+:\\d+) (?P<w>\\w+)$/ {\n  $w == \"a\" {\n    strptime($ts, \"" + l1 + "\")\n  } else {\n    strptime($ts, \"" + l2 + "\")\n  }\n  g = timestamp()\n  n++\n}\n/^plain/ {\n  g = timestamp()\n  n++\n}\n",
			[]string{"20150724T10:14 a", "20150724T10:14 b", "20150102T10:14 a", "20150102T10:14 b", "20151345T99:99 a", "20151345T99:99 b", "plain", "plain text", "19991231T23:59 a"}
	case 2:
		return "counter a\ncounter b\ngauge t\n/^set (\\d+)/ {\n  settime($1)\n}\n/halt/ {\n  a++\n  stop\n}\n/./ {\n  b++\n  t = timestamp()\n}\n",
			[]string{"set 1000", "halt", "x", "set 5 halt", "halt x", "y", "set 99"}
	default:
		conv := rapid.SampledFrom([]string{"int($1)", "float($1)", "strtol($1, 16)", "10 / int($1)", "1 << int($1)"}).Draw(rt, "conv")
		ty := "gauge v\n"
		return "counter before\ncounter after\n" + ty + "/^(\\S+)/ {\n  before++\n  v = " + conv + "\n  after++\n}\n",
			[]string{"12", "zz", "0", "-1", "ff", "1.5", "", "99999999999999999999"}
	}
}
