package rt

// C25 — Self-monitoring counters are exact.

import (
	"encoding/json"
	"expvar"
	"fmt"
	"os"
	"path/filepath"
	"strconv"
	"strings"
	"testing"
	"time"

	"github.com/google/mtail/internal/metrics/datum"
	"github.com/google/mtail/internal/mtail"
	"github.com/google/mtail/verif/vstat"
	"pgregory.net/rapid"
)

// One end-to-end run: a real mtail server (tailer + runtime + VMs) over a
// program directory and 1-3 log files.
//
// Programs (names carry the case tag):
//   w  witness: counts every line it processes per source file (ground truth
//      for "lines delivered")
//   e  raises a runtime error on lines `E<non-number>` (failed conversion) and
//      `E0` (division by zero); versions v1, v2 differ
//      in a comment and a constant
//   b  does not compile
//   k  compiles, but declares the witness's metric with another kind: refused
//      at registration
//   s  a symbolic link to nothing: cannot be read

type c25Step struct {
	Op   string `json:"op"`             // append prog scan
	File int    `json:"file,omitempty"` // append: log file
	Text string `json:"text,omitempty"` // append: raw bytes
	Prog string `json:"prog,omitempty"` // prog: e b k
	Edit string `json:"edit,omitempty"` // prog: v1 v2 same broken remove
}

type c25Case struct {
	Files int       `json:"files"`
	Init  []c25Step `json:"init"` // prog steps applied before the server starts
	Steps []c25Step `json:"steps"`
	// BurstAtStop: lines are appended to every file right before the server is
	// stopped, without waiting for them to be read: whatever the streams still
	// read is counted once by the tailer and once by the loader
	BurstAtStop int `json:"burst_at_stop,omitempty"`
}

func c25ProgSource(prog, edit, tag string) string {
	switch prog {
	case "e":
		if edit == "broken" {
			return "counter n_" + tag + "\n/^E/ {\n"
		}
		inc := "1"
		if edit == "v2" {
			inc = "2"
		}
		if edit == "kind" {
			// the same declaration at the same place, another kind
			return "gauge n_" + tag + "\n/^E(?P<x>\\S+)/ {\n  n_" + tag + " += 100 / int($x) * 1\n}\n# kind\n"
		}
		return "counter n_" + tag + "\n/^E(?P<x>\\S+)/ {\n  n_" + tag + " += 100 / int($x) * " + inc + "\n}\n# " + edit + "\n"
	case "b":
		return "counter c_" + tag + "\n/x/ {\n  c_" + tag + "++\n# " + edit + "\n"
	case "k":
		// the witness declares `counter got0_<tag>`
		return "counter z_" + tag + "\ngauge got0_" + tag + "\n/zz/ {\n  z_" + tag + "++\n  got0_" + tag + " = 1\n}\n# " + edit + "\n"
	}
	return ""
}

func expInt(name string) int64 {
	v := expvar.Get(name)
	if v == nil {
		return 0
	}
	var n int64
	fmt.Sscan(v.String(), &n)
	return n
}

func expMap(name, key string) int64 {
	m, ok := expvar.Get(name).(*expvar.Map)
	if !ok {
		return 0
	}
	return mapVal(m, key)
}

var c25TB testing.TB

func runC25(c c25Case) *vstat.Failure {
	vstat.Begin(c)
	return vstat.Catch(func() *vstat.Failure { return runC25x(c) })
}

func runC25x(c c25Case) *vstat.Failure {
	tag := uniq()
	root, err := os.MkdirTemp(vstat.Scratch(), "c25-")
	if err != nil {
		panic(err)
	}
	defer os.RemoveAll(root)
	progDir := filepath.Join(root, "progs")
	logDir := filepath.Join(root, "logs")
	must(os.Mkdir(progDir, 0o755))
	must(os.Mkdir(logDir, 0o755))
	nf := c.Files
	if nf < 1 {
		nf = 1
	}
	var logs []string
	var fds []*os.File
	for i := 0; i < nf; i++ {
		p := filepath.Join(logDir, fmt.Sprintf("log%d_%s", i, tag))
		f, err := os.OpenFile(p, os.O_CREATE|os.O_WRONLY|os.O_APPEND, 0o644)
		must(err)
		defer f.Close()
		logs = append(logs, p)
		fds = append(fds, f)
	}
	pname := func(prog string) string { return prog + "_" + tag + ".mtail" }
	wname := "0w_" + tag + ".mtail" // sorts first: directory scans load it before the others
	{
		var sb strings.Builder
		for i := range logs {
			fmt.Fprintf(&sb, "counter got%d_%s\n", i, tag)
		}
		for i, p := range logs {
			fmt.Fprintf(&sb, "getfilename() == %q {\n  got%d_%s++\n}\n", p, i, tag)
		}
		must(os.WriteFile(filepath.Join(progDir, wname), []byte(sb.String()), 0o644))
	}

	// model
	type pstate struct {
		onDisk  string // "", v1, v2, broken (for b/k: "v1" = present)
		running string // version running, "" = none
	}
	ps := map[string]*pstate{"e": {}, "b": {}, "k": {}, "s": {}}
	loads, unloads, loadErrs := map[string]int64{}, map[string]int64{}, map[string]int64{}
	var rtErrs int64
	eKind := "" // kind under which program e's metric is registered ("" = never loaded)
	applyProg := func(st c25Step) {
		p := ps[st.Prog]
		if p == nil {
			return
		}
		path := filepath.Join(progDir, pname(st.Prog))
		switch st.Edit {
		case "remove":
			if p.onDisk == "" {
				return
			}
			must(os.Remove(path))
			p.onDisk = ""
		case "same":
			if p.onDisk == "" || st.Prog == "s" {
				return
			}
			b, err := os.ReadFile(path)
			must(err)
			must(os.WriteFile(path, b, 0o644))
		default:
			ed := st.Edit
			if st.Prog != "e" {
				if ed == "broken" {
					ed = "v2"
				}
			}
			if st.Prog == "s" {
				// a program file that cannot be read: a symbolic link to nothing
				if p.onDisk == "" {
					must(os.Symlink(filepath.Join(progDir, "no_such_target_"+tag), path))
				}
				p.onDisk = "v1"
				return
			}
			must(os.WriteFile(path, []byte(c25ProgSource(st.Prog, ed, tag)), 0o644))
			p.onDisk = ed
		}
	}
	// model of one scan (LoadAllPrograms)
	scan := func() {
		for _, prog := range []string{"b", "e", "k", "s"} {
			p := ps[prog]
			n := pname(prog)
			if p.onDisk == "" {
				if p.running != "" {
					p.running = ""
					unloads[n]++
				}
				continue
			}
			kindOf := "counter"
			if p.onDisk == "kind" {
				kindOf = "gauge"
			}
			switch {
			case prog == "b" || prog == "k" || prog == "s" || p.onDisk == "broken":
				// b: compile error; k: refused at registration; every scan tries again
				loadErrs[n]++
			case p.running == p.onDisk:
				// byte-identical: not a load
			case prog == "e" && eKind != "" && eKind != kindOf:
				// the metric of an earlier version (running or unloaded) is still
				// registered with the other kind: refused at registration
				loadErrs[n]++
			default:
				p.running = p.onDisk
				loads[n]++
				if prog == "e" {
					eKind = kindOf
				}
			}
		}
	}
	for _, st := range c.Init {
		if st.Op == "prog" {
			applyProg(st)
		}
	}

	ts := mtail.TestMakeServer(c25TB, 1, 0, mtail.ProgramPath(progDir), mtail.LogPathPatterns(logs...))
	loads[wname] = 1
	scan()
	stop := ts.Start()
	stopped := false
	defer func() {
		if !stopped {
			stop()
		}
	}()
	lines0 := expInt("lines_total") // reset to 0 by TestMakeServer; lines of this run only
	_ = lines0

	witness := func() (map[string]int64, int64) {
		per := map[string]int64{}
		var total int64
		for i, p := range logs {
			v := datum.GetInt(ts.GetProgramMetric(fmt.Sprintf("got%d_%s", i, tag), wname))
			per[p] = v
			total += v
		}
		return per, total
	}

	// expected delivered lines by the framing model: complete lines per file
	pending := make([]string, nf) // unterminated tail per file
	var expectTotal int64
	eBase := processed(pname("e"))
	var eExpect uint64
	shortAtShutdown := false
	_ = shortAtShutdown
	reconcile := func(step int, final bool) *vstat.Failure {
		// wait for the lines appended so far to arrive (delivery itself is C16's subject)
		deadline := time.Now().Add(8 * time.Second)
		for !final { // after shutdown nothing more arrives
			_, tot := witness()
			if tot >= expectTotal && processed(pname("e"))-eBase >= eExpect {
				break
			}
			if time.Now().After(deadline) {
				break
			}
			time.Sleep(200 * time.Microsecond)
		}
		// the loader's count: stable once every VM has taken the last line
		per, tot := witness()
		lt := expInt("lines_total")
		if lt != tot {
			// lines_total is bumped before the VMs see the line: give the witness a moment
			for i := 0; i < 2000 && lt != tot; i++ {
				time.Sleep(500 * time.Microsecond)
				per, tot = witness()
				lt = expInt("lines_total")
			}
		}
		if lt != tot {
			return vstat.Failf("lines-total", "step %d: lines_total = %d but the programs were handed %d lines", step, lt, tot)
		}
		var sumLogs int64
		for _, p := range logs {
			ll := expMap("log_lines_total", p)
			sumLogs += ll
			if ll != per[p] {
				return vstat.Failf("log-lines-total", "step %d: log_lines_total[%s] = %d but %d lines were delivered from it", step, filepath.Base(p), ll, per[p])
			}
		}
		if sumLogs != lt {
			return vstat.Failf("lines-total", "step %d: lines_total = %d, the log streams delivered %d", step, lt, sumLogs)
		}
		if final && tot < expectTotal {
			// bytes appended right before shutdown that the stream had not read yet
			// when it was cancelled are not delivered (the statement's runs are
			// about the counters of what WAS delivered): which program processed
			// what is then unknown to the model
			shortAtShutdown = true
			return nil
		}
		if got := expMap("prog_runtime_errors_total", pname("e")); got != rtErrs {
			return vstat.Failf("prog-runtime-errors-total", "step %d: prog_runtime_errors_total[e] = %d, the program raised %d runtime errors (witness saw %d lines, %d were written; program e processed %d of %d)", step, got, rtErrs, tot, expectTotal, processed(pname("e"))-eBase, eExpect)
		}
		if got := expMap("prog_runtime_errors_total", wname); got != 0 {
			return vstat.Failf("prog-runtime-errors-total", "step %d: prog_runtime_errors_total[witness] = %d, it raises none", step, got)
		}
		for _, prog := range []string{"w", "e", "b", "k", "s"} {
			n := pname(prog)
			if prog == "w" {
				n = wname
			}
			if got := expMap("prog_loads_total", n); got != loads[n] {
				return vstat.Failf("prog-loads-total", "step %d: prog_loads_total[%s] = %d, %d successful loads happened", step, prog, got, loads[n])
			}
			if got := expMap("prog_unloads_total", n); got != unloads[n] {
				return vstat.Failf("prog-unloads-total", "step %d: prog_unloads_total[%s] = %d, %d unloads happened", step, prog, got, unloads[n])
			}
			if got := expMap("prog_load_errors_total", n); got != loadErrs[n] {
				sig := "prog-load-errors-total"
				if prog == "k" {
					sig = "prog-load-errors-total:refused-registration"
				}
				return vstat.Failf(sig, "step %d: prog_load_errors_total[%s] = %d, %d loads failed", step, prog, got, loadErrs[n])
			}
		}
		return nil
	}
	if f := reconcile(-1, false); f != nil {
		return f
	}
	for si, st := range c.Steps {
		switch st.Op {
		case "append":
			fi := st.File % nf
			if _, err := fds[fi].WriteString(st.Text); err != nil {
				panic(err)
			}
			data := pending[fi] + st.Text
			parts := strings.Split(data, "\n")
			pending[fi] = parts[len(parts)-1]
			for _, l := range parts[:len(parts)-1] {
				l = strings.TrimSuffix(l, "\r")
				expectTotal++
				if ps["e"].running != "" {
					eExpect++
					if strings.HasPrefix(l, "E") {
						tok := strings.Fields(l[1:] + " ")
						arg := ""
						if len(tok) > 0 && !strings.HasPrefix(l[1:], " ") {
							arg = tok[0]
						}
						if arg != "" && (!isInt(arg) || isZero(arg)) {
							rtErrs++
						}
					}
				}
			}
		case "prog":
			// observe everything appended so far first, so that the model knows
			// which version processed which line
			if f := reconcile(si, false); f != nil {
				return f
			}
			applyProg(st)
			continue
		case "scan":
			if f := reconcile(si, false); f != nil {
				return f
			}
			ts.LoadAllPrograms()
			scan()
		}
		if f := reconcile(si, false); f != nil {
			return f
		}
	}
	// shutdown flushes the unterminated tails
	for fi := range pending {
		if pending[fi] != "" {
			expectTotal++
			if ps["e"].running != "" {
				eExpect++
				l := pending[fi]
				if strings.HasPrefix(l, "E") && !strings.HasPrefix(l[1:], " ") {
					if tok := strings.Fields(l[1:]); len(tok) > 0 && (!isInt(tok[0]) || isZero(tok[0])) {
						rtErrs++
					}
				}
			}
		}
	}
	if c.BurstAtStop > 0 {
		for fi := range fds {
			var sb strings.Builder
			for k := 0; k < c.BurstAtStop; k++ {
				fmt.Fprintf(&sb, "late %d\n", k)
			}
			if _, err := fds[fi].WriteString(sb.String()); err != nil {
				panic(err)
			}
			// the model counts them as written; the final reconciliation accepts
			// that not all of them were read before the streams were cancelled
			expectTotal += int64(c.BurstAtStop)
			if ps["e"].running != "" {
				eExpect += uint64(c.BurstAtStop)
			}
		}
	} else {
		// let the (busy-polling) streams read what was appended last before they are cancelled
		time.Sleep(3 * time.Millisecond)
	}
	stopped = true
	stop()
	return reconcile(len(c.Steps), true)
}

func isInt(s string) bool {
	if s == "" {
		return false
	}
	i := 0
	if s[0] == '-' || s[0] == '+' {
		i = 1
	}
	if i >= len(s) || len(s)-i > 18 {
		return false
	}
	for ; i < len(s); i++ {
		if s[i] < '0' || s[i] > '9' {
			return false
		}
	}
	return true
}

func must(err error) {
	if err != nil {
		panic(err)
	}
}

func c25RunRaw(raw json.RawMessage) *vstat.Failure {
	c, err := vstat.JSON[c25Case](raw)
	if err != nil {
		return vstat.Failf("bad-replay", "%v", err)
	}
	return runC25(c)
}

func TestC25(t *testing.T) {
	c25TB = t
	st := vstat.New("C25", "end-to-end runs of a real mtail server (tailer, runtime, VMs) over a program directory (a witness program counting delivered lines per file, a program raising runtime errors on known lines with two versions, a program that does not compile, a program refused at registration for a kind conflict) and 1-3 log files receiving generated appends (LF, CRLF, several lines per write, unterminated tails); program edits (new version, same bytes, broken, remove) followed by reload requests; counters read as deltas and reconciled after every step and after shutdown. non-trivial = a run with a runtime-erroring line, a failed load and a successful reload; distinct by case")
	st.Assumptions = []string{"the witness program's own per-file counts are the ground truth for 'lines delivered'", "one server at a time; program and file names are unique per case"}
	st.Run(t, c25RunRaw, func() {
		texts := []string{"hello\n", "E12\n", "E0\n", "E0 x\nE3\n", "Eabc\n", "E1 x\nfoo\n", "Ex y\r\n", "a\nb\nc\n", "part", "ial\n", "Ezz", "\n", "E7\r\nE-\n", "zz\n", ""}
		st.Check(t, func(rt *rapid.T) {
			var c c25Case
			defer st.Guard(func() any { return c })
			c.Files = rapid.IntRange(1, 3).Draw(rt, "files")
			if rapid.Bool().Draw(rt, "burst") {
				c.BurstAtStop = rapid.SampledFrom([]int{5, 50, 400}).Draw(rt, "nburst")
				st.Class("lines-appended-right-before-the-stop")
			}
			progStep := func(label string) c25Step {
				p := rapid.SampledFrom([]string{"e", "e", "e", "b", "k", "s"}).Draw(rt, label+"prog")
				ed := rapid.SampledFrom([]string{"v1", "v2", "same", "broken", "remove", "kind"}).Draw(rt, label+"edit")
				return c25Step{Op: "prog", Prog: p, Edit: ed}
			}
			if rapid.IntRange(0, 3).Draw(rt, "inite") > 0 {
				c.Init = append(c.Init, c25Step{Op: "prog", Prog: "e", Edit: "v1"})
			}
			ni := rapid.IntRange(0, 3).Draw(rt, "ninit")
			for i := 0; i < ni; i++ {
				c.Init = append(c.Init, progStep("i"))
			}
			n := rapid.IntRange(6, vstat.Scale(16, 22)).Draw(rt, "nsteps")
			hasErrLine, hasFailedLoad, hasReload := false, false, false
			for i := 0; i < n; i++ {
				switch rapid.SampledFrom([]string{"append", "append", "append", "prog", "scan"}).Draw(rt, "op") {
				case "append":
					tx := rapid.SampledFrom(texts).Draw(rt, "text")
					if strings.Contains(tx, "Eabc") || strings.Contains(tx, "Ex") || strings.Contains(tx, "E-") || strings.Contains(tx, "Ezz") || strings.Contains(tx, "E0") {
						hasErrLine = true
					}
					c.Steps = append(c.Steps, c25Step{Op: "append", File: rapid.IntRange(0, c.Files-1).Draw(rt, "file"), Text: tx})
				case "prog":
					s := progStep("s")
					c.Steps = append(c.Steps, s, c25Step{Op: "scan"})
					if s.Prog != "e" || s.Edit == "broken" {
						hasFailedLoad = true
					}
					if s.Prog == "e" && (s.Edit == "v1" || s.Edit == "v2") {
						hasReload = true
					}
				case "scan":
					c.Steps = append(c.Steps, c25Step{Op: "scan"})
				}
			}
			st.Eval()
			if hasErrLine {
				st.Class("runtime-error-line")
			}
			if hasFailedLoad {
				st.Class("failed-load")
			}
			if hasReload {
				st.Class("reload")
			}
			if hasErrLine && hasFailedLoad && hasReload {
				b, _ := json.Marshal(c)
				st.NonTrivial(string(b), c)
			}
			st.SkipShrink(rt, c)
			st.Report(rt, runC25(c), c)
		})
	})
}

// isZero reports whether the integer text s denotes zero.
func isZero(s string) bool {
	n, err := strconv.ParseInt(s, 10, 64)
	return err == nil && n == 0
}
