package rt

// C26 — Program directory scanning loads exactly the eligible files.

import (
	"encoding/json"
	"fmt"
	"github.com/google/mtail/internal/runtime"
	"os"
	"os/signal"
	"path/filepath"
	"sort"
	"strings"
	"syscall"
	"testing"
	"time"

	"github.com/google/mtail/internal/metrics"
	"github.com/google/mtail/internal/metrics/datum"
	"github.com/google/mtail/verif/hx"
	"github.com/google/mtail/verif/vstat"
	"pgregory.net/rapid"
)

// file slots of the program directory
var c26Slots = []struct {
	rel      string // relative path; %s = case tag
	eligible bool
}{
	{"p1_%s.mtail", true},
	{"p2_%s.mtail", true},
	{"p3_%s.mtail", true},
	{"p4.v2_%s.mtail", true}, // a second dot in the name: still a program
	{".hid_%s.mtail", false},
	{"notes_%s.txt", false},
	{"sub/inner_%s.mtail", false},
	{"p1_%s.mtail.bak", false},
	{"p2_%s.txt", false},
	{".p3_%s.mtail", false},
	{"sub/p1_%s.mtail", false},
}

type c26Act struct {
	Op   string `json:"op"` // new same broken remove rename dir scan
	Slot int    `json:"slot"`
	To   int    `json:"to,omitempty"`
}

type c26Case struct {
	Init []c26Act `json:"init"`
	Acts []c26Act `json:"acts"`
	K    int      `json:"k"`
}

type c26File struct {
	broken bool
	stamp  string
	isDir  bool
}

func c26Source(stamp string) string {
	return "counter hits by stamp\n/^L/ {\n  hits[\"" + stamp + "\"]++\n}\n"
}

const c26Broken = "counter hits by stamp\n/^L/ {\n  hits[\"x\"]++\n"

// c26Hits returns stamp -> count for program prog, summed over every metric
// of that program named hits in the store.
func c26Hits(s *metrics.Store, prog string) map[string]int64 {
	out := map[string]int64{}
	_ = s.Range(func(m *metrics.Metric) error {
		if m.Program != prog || m.Name != "hits" {
			return nil
		}
		m.RLock()
		defer m.RUnlock()
		for _, lv := range m.LabelValues {
			if len(lv.Labels) == 1 {
				out[lv.Labels[0]] += datum.GetInt(lv.Value)
			}
		}
		return nil
	})
	return out
}

func runC26(c c26Case) *vstat.Failure {
	vstat.Begin(c)
	return vstat.Catch(func() *vstat.Failure { return runC26x(c) })
}

func runC26x(c c26Case) *vstat.Failure {
	tag := uniq()
	dir, err := os.MkdirTemp(vstat.Scratch(), "c26-")
	if err != nil {
		panic(err)
	}
	defer os.RemoveAll(dir)
	if err := os.Mkdir(filepath.Join(dir, "sub"), 0o755); err != nil {
		panic(err)
	}
	path := func(slot int) string { return filepath.Join(dir, fmt.Sprintf(c26Slots[slot].rel, tag)) }
	prog := func(slot int) string { return filepath.Base(path(slot)) }
	k := c.K
	if k <= 0 {
		k = 1
	}

	witness := "w_" + tag + ".mtail"
	files := map[int]*c26File{}    // model of the directory
	running := map[string]string{} // model: program name -> stamp it runs
	nstamp := 0
	history := map[int][]string{} // slot -> stamps of the valid contents it held, oldest first
	apply := func(a c26Act) {
		s := a.Slot % len(c26Slots)
		switch a.Op {
		case "new", "same", "broken":
			f := files[s]
			if f != nil && f.isDir {
				return
			}
			if a.Op == "same" && f != nil {
				// rewrite the same bytes
				b, err := os.ReadFile(path(s))
				if err != nil {
					panic(err)
				}
				if err := os.WriteFile(path(s), b, 0o644); err != nil {
					panic(err)
				}
				return
			}
			if a.Op == "broken" {
				if err := os.WriteFile(path(s), []byte(c26Broken), 0o644); err != nil {
					panic(err)
				}
				files[s] = &c26File{broken: true}
				return
			}
			nstamp++
			st := fmt.Sprintf("s%dn%d", s, nstamp)
			if err := os.WriteFile(path(s), []byte(c26Source(st)), 0o644); err != nil {
				panic(err)
			}
			files[s] = &c26File{stamp: st}
			history[s] = append(history[s], st)
		case "revert":
			// write again what the slot held one or two contents ago (an edit
			// undone, or a removed file put back unchanged)
			h := history[s]
			if len(h) == 0 || (files[s] != nil && files[s].isDir) {
				return
			}
			back := 1 + a.To%2
			if back > len(h) {
				back = len(h)
			}
			old := h[len(h)-back]
			if files[s] != nil && !files[s].broken && files[s].stamp == old {
				if len(h) < 2 {
					return
				}
				old = h[len(h)-2]
			}
			if err := os.WriteFile(path(s), []byte(c26Source(old)), 0o644); err != nil {
				panic(err)
			}
			files[s] = &c26File{stamp: old}
			history[s] = append(history[s], old)
		case "remove":
			if files[s] == nil {
				return
			}
			if err := os.RemoveAll(path(s)); err != nil {
				panic(err)
			}
			delete(files, s)
		case "rename":
			to := a.To % len(c26Slots)
			if files[s] == nil || to == s || (files[to] != nil && (files[to].isDir || files[s].isDir)) {
				return
			}
			if err := os.Rename(path(s), path(to)); err != nil {
				panic(err)
			}
			files[to] = files[s]
			delete(files, s)
		case "dir", "todir":
			// a directory with an eligible-looking name, holding a program file;
			// "todir": it takes the place (and the name) of a program file
			if strings.HasPrefix(c26Slots[s].rel, "sub/") {
				return
			}
			if a.Op == "todir" {
				if files[s] == nil || files[s].isDir {
					return
				}
				if err := os.Remove(path(s)); err != nil {
					panic(err)
				}
				delete(files, s)
			}
			if files[s] != nil {
				return
			}
			if err := os.Mkdir(path(s), 0o755); err != nil {
				panic(err)
			}
			nstamp++
			st := fmt.Sprintf("s%dn%d", s, nstamp)
			if err := os.WriteFile(filepath.Join(path(s), "in_"+tag+".mtail"), []byte(c26Source(st)), 0o644); err != nil {
				panic(err)
			}
			files[s] = &c26File{isDir: true, stamp: st}
		case "scan":
		}
	}
	// the model of one scan
	scan := func() {
		present := map[string]bool{}
		for s, f := range files {
			if !c26Slots[s].eligible || f.isDir {
				continue
			}
			present[prog(s)] = true
			if f.broken {
				continue // the previous version, if any, keeps running
			}
			running[prog(s)] = f.stamp
		}
		for n := range running {
			if !present[n] && n != witness {
				delete(running, n)
			}
		}
	}

	for _, a := range c.Init {
		apply(a)
	}
	// a witness program that no action touches: it is always in the running set,
	// so "every expected program has processed the batch" implies that the
	// dispatcher is done with the batch before the next scan starts
	if err := os.WriteFile(filepath.Join(dir, witness), []byte(c26Source("w")), 0o644); err != nil {
		panic(err)
	}
	running[witness] = "w"
	e, err := newEnv(dir)
	if err != nil {
		return vstat.Failf("runtime-new-error", "runtime.New on the program directory: %v", err)
	}
	defer e.close()
	scan()

	// every name that could ever carry a program
	var names []string
	seenName := map[string]bool{}
	for s := range c26Slots {
		if !seenName[prog(s)] {
			seenName[prog(s)] = true
			names = append(names, prog(s))
		}
	}
	names = append(names, "in_"+tag+".mtail", "sub", witness)
	for _, n := range names {
		e.base[n] = processed(n)
	}
	last := map[string]map[string]int64{}
	for _, n := range names {
		last[n] = map[string]int64{}
	}

	batch := func(step int) *vstat.Failure {
		for n := range e.running {
			delete(e.running, n)
		}
		for n := range running {
			e.markRunning(n, true)
		}
		for i := 0; i < k; i++ {
			e.feed("log", fmt.Sprintf("L %d %d", step, i))
		}
		late := e.quiesce(10 * time.Second)
		// one more line's worth of settling for programs that should NOT run:
		// the dispatcher hands a line to every VM before taking the next one, so
		// after the last line was processed by the expected programs, any other
		// running VM has at least received all but the last line.
		for _, n := range names {
			now := c26Hits(e.store, n)
			for st, v := range now {
				d := v - last[n][st]
				want := int64(0)
				if running[n] == st {
					want = int64(k)
				}
				if d != want {
					what := "stale-or-ineligible-program-received-lines"
					if want > 0 {
						what = "running-program-missed-lines"
					}
					if late != nil && want > 0 {
						what = "running-program-missed-lines"
					}
					return vstat.Failf(what, "step %d: program %s stamp %s advanced by %d, want %d (model running set %v, late %v)\nstore:\n%s", step, n, st, d, want, running, late, hx.DumpStore(e.store, "", hx.DumpOpts{Source: true}))
				}
			}
			if st, ok := running[n]; ok {
				if _, seen := now[st]; !seen {
					return vstat.Failf("running-program-missed-lines", "step %d: program %s should run stamp %s but that stamp never counted a line (has %v)", step, n, st, now)
				}
			}
			last[n] = now
		}
		if late != nil {
			return vstat.Failf("running-program-missed-lines", "step %d: programs %v did not process the %d lines sent (model running set %v)", step, late, k, running)
		}
		// a VM that is not in the model (ghost) shows as processed lines nobody expected
		for _, n := range names {
			got := processed(n) - e.base[n]
			if got != e.expect[n] {
				return vstat.Failf("stale-or-ineligible-program-received-lines", "step %d: VMs named %s processed %d lines in total, the model expects %d", step, n, got, e.expect[n])
			}
		}
		return nil
	}
	if f := batch(0); f != nil {
		return f
	}
	for i, a := range c.Acts {
		apply(a)
		if err := e.r.LoadAllPrograms(); err != nil {
			return vstat.Failf("load-all-error", "step %d (%+v): LoadAllPrograms: %v", i+1, a, err)
		}
		scan()
		if f := batch(i + 1); f != nil {
			f.Msg = fmt.Sprintf("after action %+v: %s", a, f.Msg)
			return f
		}
	}
	if !e.close() {
		return vstat.Failf("runtime-does-not-stop", "runtime did not shut down within 20 s after its line channel was closed")
	}
	// everything has drained now: a VM outside the model that was still behind
	// by one line at the last comparison shows here
	for _, n := range names {
		for st, v := range c26Hits(e.store, n) {
			if v != last[n][st] {
				return vstat.Failf("stale-or-ineligible-program-received-lines", "after shutdown: program %s stamp %s moved from %d to %d after the last comparison", n, st, last[n][st], v)
			}
		}
		if got := processed(n) - e.base[n]; got != e.expect[n] {
			return vstat.Failf("stale-or-ineligible-program-received-lines", "after shutdown: VMs named %s processed %d lines in total, the model expects %d", n, got, e.expect[n])
		}
	}
	return nil
}

func c26RunRaw(raw json.RawMessage) *vstat.Failure {
	c, err := vstat.JSON[c26Case](raw)
	if err != nil {
		return vstat.Failf("bad-replay", "%v", err)
	}
	return runC26(c)
}

func TestC26(t *testing.T) {
	st := vstat.New("C26", "histories over a real program directory (4 eligible program files, one of them with a second dot in its name, a dot-file, a .txt file, a .bak file, files in a subdirectory, a directory with an eligible-looking name): write a new version / the same bytes / a broken version, remove, rename between any two slots (eligible <-> ineligible, program <-> program), each followed by LoadAllPrograms, K lines and quiescence; plus a fixed scenario in which reloads are requested by SIGHUP and the second request arrives while the first scan is held at a named pipe; every (file, version) counts lines under its own stamp, the model predicts which stamps advance by K. non-trivial = a history with a broken edit of a running program followed by a valid edit, or a rename involving an eligible name; distinct by history")
	st.Assumptions = []string{"lines fully processed per program name are read from the exported vm.LineProcessingDurations histogram", "a scan is observed when LoadAllPrograms returns"}
	st.Run(t, c26RunRaw, func() {
		if shard, _ := vstat.Shard(); shard == 0 {
			for round := 0; round < vstat.Scale(6, 30); round++ {
				f := vstat.Catch(func() *vstat.Failure { return c26HupDuringScan(round) })
				st.Eval()
				st.Class("reload-requested-by-signal-during-a-scan")
				if f != nil {
					st.Violate(t, f, nil, "hup-during-scan")
					return
				}
			}
		}
		ops := []string{"new", "new", "same", "broken", "broken", "remove", "remove", "revert", "revert", "rename", "rename", "dir", "todir", "scan"}
		st.Check(t, func(rt *rapid.T) {
			var c c26Case
			defer st.Guard(func() any { return c })
			act := func(label string) c26Act {
				a := c26Act{Op: rapid.SampledFrom(ops).Draw(rt, label+"op")}
				// bias towards the eligible slots
				if rapid.IntRange(0, 9).Draw(rt, label+"elig") < 6 {
					a.Slot = rapid.IntRange(0, 3).Draw(rt, label+"slot")
				} else {
					a.Slot = rapid.IntRange(0, len(c26Slots)-1).Draw(rt, label+"slot")
				}
				if a.Op == "rename" || a.Op == "revert" {
					a.To = rapid.IntRange(0, len(c26Slots)-1).Draw(rt, label+"to")
				}
				return a
			}
			ni := rapid.IntRange(0, 5).Draw(rt, "ninit")
			for i := 0; i < ni; i++ {
				a := act("i")
				if a.Op == "rename" || a.Op == "remove" || a.Op == "scan" {
					a.Op = "new"
				}
				c.Init = append(c.Init, a)
			}
			na := rapid.IntRange(1, vstat.Scale(10, 14)).Draw(rt, "nacts")
			for i := 0; i < na; i++ {
				c.Acts = append(c.Acts, act("a"))
			}
			c.K = rapid.IntRange(1, 3).Draw(rt, "k")
			st.Eval()
			// classification on the model alone
			brokenThenValid, renameElig := false, false
			brokenAt := map[int]bool{}
			for _, a := range c.Acts {
				switch a.Op {
				case "broken":
					if a.Slot < 4 {
						brokenAt[a.Slot] = true
					}
				case "new":
					if brokenAt[a.Slot] {
						brokenThenValid = true
					}
				case "rename":
					if a.Slot%len(c26Slots) < 4 || a.To%len(c26Slots) < 4 {
						renameElig = true
					}
				}
				st.Class("op:" + a.Op)
			}
			if brokenThenValid {
				st.Class("broken-then-valid-edit")
			}
			if renameElig {
				st.Class("rename-involving-eligible-name")
			}
			if brokenThenValid || renameElig {
				b, _ := json.Marshal(c)
				st.NonTrivial(string(b), c)
			}
			st.SkipShrink(rt, c)
			st.Report(rt, runC26(c), c)
		})
	})
	_ = sort.Strings
}

func c26RunRawCase(s string) (c26Case, error) { return vstat.JSON[c26Case](json.RawMessage(s)) }

// c26HupDuringScan: reload requests arrive as SIGHUP, and a second request
// arrives while the scan for the first is still under way (it is held at a
// named pipe that sorts last in the directory). What the second request was
// sent for - an edit to a file the first scan has already passed - must be
// running once both are served.
func c26HupDuringScan(round int) *vstat.Failure {
	tag := uniq()
	dir, err := os.MkdirTemp(vstat.Scratch(), "c26h-")
	if err != nil {
		panic(err)
	}
	defer os.RemoveAll(dir)
	a := "a_" + tag + ".mtail"
	fifo := "zzf_" + tag + ".mtail"
	write := func(stamp string) {
		if err := os.WriteFile(filepath.Join(dir, a), []byte(c26Source(stamp)), 0o644); err != nil {
			panic(err)
		}
	}
	write("v1")
	e, err := newEnv(dir)
	if err != nil {
		panic(err)
	}
	defer e.close()
	if err := e.r.LoadAllPrograms(); err != nil {
		return vstat.Failf("load-all-error", "%v", err)
	}
	loads0 := mapVal(runtime.ProgLoads, a)
	// the runtime subscribes to SIGHUP in a goroutine of its own, some time
	// after New has returned: keep the default action (terminate) from ever
	// applying to this process, and give that goroutine time to get there
	own := make(chan os.Signal, 8)
	signal.Notify(own, syscall.SIGHUP)
	defer signal.Stop(own)
	time.Sleep(30 * time.Millisecond)
	if err := syscall.Mkfifo(filepath.Join(dir, fifo), 0o644); err != nil {
		panic(err)
	}
	hup := func() {
		if err := syscall.Kill(os.Getpid(), syscall.SIGHUP); err != nil {
			panic(err)
		}
	}
	hup() // request 1: the scan passes a_… (unchanged) and waits at the pipe
	time.Sleep(time.Duration(20+10*(round%3)) * time.Millisecond)
	write("v2")
	hup() // request 2
	time.Sleep(2 * time.Millisecond)
	// let the first scan go on: the pipe yields an empty program
	var w *os.File
	for end := time.Now().Add(3 * time.Second); time.Now().Before(end); time.Sleep(time.Millisecond) {
		// non-blocking: fails while no scan has the pipe open for reading
		if w, err = os.OpenFile(filepath.Join(dir, fifo), os.O_WRONLY|syscall.O_NONBLOCK, 0); err == nil {
			break
		}
	}
	_ = os.Remove(filepath.Join(dir, fifo))
	if w == nil {
		// no scan ever got to the pipe (the first signal came before the runtime
		// listened): the situation was not set up; nothing to judge
		return nil
	}
	w.Close()
	// both requests served: a_… has been loaded again
	ok := false
	for end := time.Now().Add(5 * time.Second); time.Now().Before(end); time.Sleep(2 * time.Millisecond) {
		if mapVal(runtime.ProgLoads, a) > loads0 {
			ok = true
			break
		}
	}
	if !ok {
		return vstat.Failf("reload-request-lost", "a reload was requested (SIGHUP) after %s had been edited, while the scan for an earlier request was under way; 5 s later the file has not been loaded again", a)
	}
	e.markRunning(a, true)
	for i := 0; i < 3; i++ {
		e.feed("f", fmt.Sprintf("L%d", i))
	}
	if late := e.quiesce(10 * time.Second); late != nil {
		return vstat.Failf("lines-not-processed", "%v", late)
	}
	h := c26Hits(e.store, a)
	if h["v2"] != 3 || h["v1"] != 0 {
		return vstat.Failf("stale-version-running", "after the edit and the reload request the lines were counted by %v (want v2: 3)", h)
	}
	// let the second scan finish before the runtime is shut down: its last act
	// is to unload the program that came from the (now removed) pipe, and a
	// shutdown in the middle of a scan is not this check's subject
	if mapVal(runtime.ProgLoads, fifo) > 0 {
		for end := time.Now().Add(3 * time.Second); time.Now().Before(end) && mapVal(runtime.ProgUnloads, fifo) == 0; time.Sleep(time.Millisecond) {
		}
	}
	time.Sleep(5 * time.Millisecond)
	return nil
}
