package rt

// Shared harness for the runtime-level properties (C06, C14, C20, C25, C26):
// a real runtime.Runtime fed through its line channel, with a hook-free
// quiescence signal (the per-program sample count of the exported
// vm.LineProcessingDurations histogram = lines fully processed by that name).

import (
	"expvar"
	"fmt"
	"strings"
	"sync"
	"sync/atomic"
	"time"

	"github.com/google/mtail/internal/logline"
	"github.com/google/mtail/internal/metrics"
	"github.com/google/mtail/internal/runtime"
	"github.com/google/mtail/internal/runtime/vm"
	"github.com/google/mtail/verif/hx"
	"github.com/prometheus/client_golang/prometheus"
	dto "github.com/prometheus/client_model/go"
)

var caseSeq atomic.Int64

// uniq returns a process-unique tag used in program names, so that the
// process-global expvar maps and histogram vector start from zero per case.
func uniq() string { return fmt.Sprintf("v%d", caseSeq.Add(1)) }

// processed returns the number of lines fully processed by programs of this name.
func processed(name string) uint64 {
	o, err := vm.LineProcessingDurations.GetMetricWithLabelValues(name)
	if err != nil {
		return 0
	}
	var m dto.Metric
	if err := o.(prometheus.Metric).Write(&m); err != nil {
		return 0
	}
	return m.GetHistogram().GetSampleCount()
}

// env is one runtime with its store and line channel.
type env struct {
	store *metrics.Store
	lines chan *logline.LogLine
	wg    sync.WaitGroup
	r     *runtime.Runtime

	running map[string]bool   // model: names that have a running VM
	expect  map[string]uint64 // lines each name should have processed
	base    map[string]uint64
	closed  bool
}

func newEnv(progPath string, opts ...runtime.Option) (*env, error) {
	e := &env{store: metrics.NewStore(), lines: make(chan *logline.LogLine), running: map[string]bool{}, expect: map[string]uint64{}, base: map[string]uint64{}}
	r, err := runtime.New(e.lines, &e.wg, progPath, e.store, opts...)
	if err != nil {
		close(e.lines)
		return nil, err
	}
	e.r = r
	return e, nil
}

// markRunning tells the model that name has (or no longer has) a running VM.
func (e *env) markRunning(name string, on bool) {
	if on {
		if _, ok := e.base[name]; !ok {
			e.base[name] = processed(name)
		}
		e.running[name] = true
	} else {
		delete(e.running, name)
	}
}

// feed sends one line to the runtime; every running program is expected to
// process it.
func (e *env) feed(file, text string) {
	e.lines <- hx.Line(file, text)
	for n := range e.running {
		e.expect[n]++
	}
}

// quiesce waits until every program has processed the lines it was sent.
// It returns the names that did not get there within the deadline.
func (e *env) quiesce(deadline time.Duration) []string {
	end := time.Now().Add(deadline)
	spins := 0
	for {
		var late []string
		for n, want := range e.expect {
			if processed(n)-e.base[n] < want {
				late = append(late, n)
			}
		}
		if len(late) == 0 {
			// the dispatcher itself has taken the last line (unbuffered send returned)
			return nil
		}
		if time.Now().After(end) {
			return late
		}
		spins++
		if spins < 200 {
			time.Sleep(20 * time.Microsecond)
		} else {
			time.Sleep(time.Millisecond)
		}
	}
}

// overshoot reports names that processed MORE lines than they were sent.
func (e *env) overshoot() []string {
	var over []string
	for n, want := range e.expect {
		if processed(n)-e.base[n] > want {
			over = append(over, fmt.Sprintf("%s: processed %d, sent %d", n, processed(n)-e.base[n], want))
		}
	}
	return over
}

// close ends the run: closes the line channel and waits for the runtime.
func (e *env) close() bool {
	if e.closed {
		return true
	}
	e.closed = true
	close(e.lines)
	done := make(chan struct{})
	go func() { e.wg.Wait(); close(done) }()
	select {
	case <-done:
		return true
	case <-time.After(20 * time.Second):
		return false
	}
}

// mapVal reads an expvar.Map entry as int64 (0 if absent).
func mapVal(m *expvar.Map, key string) int64 {
	v := m.Get(key)
	if v == nil {
		return 0
	}
	var n int64
	fmt.Sscan(v.String(), &n)
	return n
}

func firstDiffLine(a, b string) string {
	al, bl := strings.Split(a, "\n"), strings.Split(b, "\n")
	for i := 0; i < len(al) || i < len(bl); i++ {
		var x, y string
		if i < len(al) {
			x = al[i]
		}
		if i < len(bl) {
			y = bl[i]
		}
		if x != y {
			return fmt.Sprintf("line %d: got %q want %q", i, x, y)
		}
	}
	return ""
}

func lineOf(text string) *logline.LogLine { return hx.Line("log", text) }
