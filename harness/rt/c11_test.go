package rt

// C11 — Concurrent processing, export, reload and GC are race-free.
//
// Built and run with -race (GORACE=halt_on_error=1): a report ends the process,
// the driver turns it into a violation whose signature is the pair of
// functions of the two conflicting accesses and whose replay is the plan that
// was running (recorded by vstat.Begin).

import (
	"encoding/json"
	"fmt"
	"io"
	"math"
	"net/http/httptest"
	goruntime "runtime"
	"strconv"
	"strings"
	"sync"
	"sync/atomic"
	"testing"
	"time"

	"github.com/google/mtail/internal/metrics"
	"github.com/google/mtail/internal/metrics/datum"
	"github.com/google/mtail/verif/hx"
	"github.com/google/mtail/verif/vstat"
	"pgregory.net/rapid"
)

type c11Actor struct {
	Kind    string `json:"kind"` // gc reload prom json varz graphite push-graphite push-statsd push-collectd unload-load
	Reps    int    `json:"reps"`
	StartUs int    `json:"start_us"`
	YieldUs int    `json:"yield_us"`
}

type c11Case struct {
	Progs      int        `json:"progs"` // 2-4 programs; program 0 is never reloaded (lost-update oracle)
	Lines      int        `json:"lines"`
	Words      int        `json:"words"` // size of the label universe
	Actors     []c11Actor `json:"actors"`
	GoMaxProcs int        `json:"gomaxprocs"`
	PauseEvery int        `json:"pause_every"` // feeder yields every so many lines
}

func c11Source(i, ver int) string {
	return fmt.Sprintf(`counter lines_total
counter by_word by w limit 6
gauge last_n
counter marked by w
histogram sizes by w buckets 1, 10, 100
/^(?P<w>\w+) (?P<n>\d+)$/ {
  lines_total++
  by_word[$w]++
  last_n = $n
  marked[$w] += %d
  sizes[$w] = $n
  $n > 50 {
    del marked[$w] after 1ms
  }
  # per-VM conversion state: every program converts the same texts at the same time
  strptime($w, "w5")
}
/^del (?P<dw>\w+)$/ {
  del by_word[$dw]
}
# program %d version %d
`, 1+ver%2, i, ver)
}

type c11Info struct {
	overlapKinds int
}

func runC11(c c11Case) (*vstat.Failure, c11Info) {
	vstat.Begin(c)
	var info c11Info
	f := vstat.Catch(func() *vstat.Failure { return runC11x(c, &info) })
	return f, info
}

func runC11x(c c11Case, info *c11Info) *vstat.Failure {
	if c.GoMaxProcs > 0 {
		old := goruntime.GOMAXPROCS(c.GoMaxProcs)
		defer goruntime.GOMAXPROCS(old)
	}
	tag := uniq()
	e, err := newEnv("")
	if err != nil {
		panic(err)
	}
	defer e.close()
	sc, err := hx.NewScraper(e.store)
	if err != nil {
		panic(err)
	}
	defer sc.Close()
	np := c.Progs
	if np < 2 {
		np = 2
	}
	name := func(i int) string { return fmt.Sprintf("c%d_%s.mtail", i, tag) }
	for i := 0; i < np; i++ {
		if err := e.r.CompileAndRun(name(i), strings.NewReader(c11Source(i, 0))); err != nil {
			return vstat.Failf("load-error", "%v", err)
		}
	}
	// a metric of a program of its own, written through the API by the api-inc actors
	apiMetric := metrics.NewMetric("api_total", "api_"+tag+".mtail", metrics.Counter, metrics.Int, "k")
	if err := e.store.Add(apiMetric); err != nil {
		return vstat.Failf("store-add-error", "%v", err)
	}
	// a histogram written through the API by the api-observe actors: every
	// observation is 1.0, so in any state the datum ever had the bucket le=1
	// holds Count observations and Sum equals Count
	apiHist := metrics.NewMetric("api_hist", "api_"+tag+".mtail", metrics.Histogram, metrics.Buckets, "k")
	apiHist.Buckets = []datum.Range{{Min: 0, Max: 1}, {Min: 1, Max: 2}, {Min: 2, Max: math.Inf(1)}}
	if err := e.store.Add(apiHist); err != nil {
		return vstat.Failf("store-add-error", "%v", err)
	}
	var apiIncs atomic.Int64
	apiMaxReps, apiActors := 0, 0
	for _, a := range c.Actors {
		if a.Kind == "api-inc" {
			apiActors++
			if a.Reps > apiMaxReps {
				apiMaxReps = a.Reps
			}
		}
	}
	base0 := processed(name(0))
	var seq atomic.Int64 // "time": lines handed over so far
	var lineWindow [2]int64
	feedStart := make(chan struct{})
	feedDone := make(chan struct{})
	matching := int64(0)
	go func() {
		defer close(feedDone)
		// a case that fails closes the line channel while lines are still being fed
		defer func() { _ = recover() }()
		<-feedStart
		lineWindow[0] = seq.Load()
		for i := 0; i < c.Lines; i++ {
			var text string
			if i%17 == 16 {
				text = fmt.Sprintf("del w%d", i%max(c.Words, 1))
			} else {
				text = fmt.Sprintf("w%d %d", (i*7)%max(c.Words, 1), i%100)
				matching++
			}
			e.lines <- lineOf(text)
			seq.Add(1)
			if c.PauseEvery > 0 && i%c.PauseEvery == c.PauseEvery-1 {
				goruntime.Gosched()
			}
		}
		lineWindow[1] = seq.Load()
	}()
	var awg sync.WaitGroup
	var mu sync.Mutex
	overlapped := map[string]bool{}
	var fail *vstat.Failure
	setFail := func(f *vstat.Failure) {
		mu.Lock()
		if fail == nil {
			fail = f
		}
		mu.Unlock()
	}
	tornHist := func(path string, le1, count uint64, sum float64) {
		if le1 != count || sum != float64(count) {
			setFail(vstat.Failf("export-shows-a-state-that-never-existed:"+path, "%s export of histogram api_hist: bucket le=1 holds %d, count %d, sum %v (every observation is 1.0: the three are equal in every state the datum was ever in)", path, le1, count, sum))
		}
	}
	// mtail loads, reloads and unloads programs from one goroutine at a time
	// (start-up, then the SIGHUP handler): the actors that do so take turns
	var loaderMu sync.Mutex
	var lastScrape atomic.Int64
	lastScrape.Store(-1)
	for ai, a := range c.Actors {
		awg.Add(1)
		go func(ai int, a c11Actor) {
			defer awg.Done()
			<-feedStart
			if a.StartUs > 0 {
				time.Sleep(time.Duration(a.StartUs) * time.Microsecond)
			}
			ver := 0
			for r := 0; r < a.Reps; r++ {
				s0 := seq.Load()
				switch a.Kind {
				case "gc":
					if err := e.store.Gc(); err != nil {
						setFail(vstat.Failf("gc-error", "%v", err))
					}
				case "reload":
					ver++
					p := 1 + (ai+r)%(np-1)
					loaderMu.Lock()
					err := e.r.CompileAndRun(name(p), strings.NewReader(c11Source(p, ver)))
					loaderMu.Unlock()
					if err != nil {
						setFail(vstat.Failf("reload-error", "%v", err))
					}
				case "prom":
					fams, _, gerr, _ := sc.Gather()
					if gerr != nil {
						setFail(vstat.Failf("scrape-fails", "%v", gerr))
						break
					}
					if fam := fams["api_hist"]; fam != nil {
						for _, m := range fam.Metric {
							h := m.GetHistogram()
							for _, b := range h.GetBucket() {
								if b.GetUpperBound() == 1 {
									tornHist("prometheus", b.GetCumulativeCount(), h.GetSampleCount(), h.GetSampleSum())
								}
							}
						}
					}
					// the never-reloaded program's counter: within [0, final], non-decreasing over scrapes
					if fam := fams["lines_total"]; fam != nil {
						for _, m := range fam.Metric {
							for _, lp := range m.Label {
								if lp.GetName() == "prog" && lp.GetValue() == name(0) {
									v := int64(m.GetCounter().GetValue())
									for {
										old := lastScrape.Load()
										if v >= old {
											if lastScrape.CompareAndSwap(old, v) {
												break
											}
											continue
										}
										// an older scrape may finish later: only a value below one
										// seen by a scrape that STARTED earlier would be wrong; keep it simple
										break
									}
									if v < 0 || v > int64(c.Lines) {
										setFail(vstat.Failf("exported-value-out-of-range", "lines_total of the never-reloaded program exported as %d with %d lines in all", v, c.Lines))
									}
								}
							}
						}
					}
				case "json":
					w := httptest.NewRecorder()
					sc.Exp.HandleJSON(w, httptest.NewRequest("GET", "/json", nil))
					c11CheckJSONHist(w.Body.Bytes(), "json", tornHist)
				case "varz":
					w := httptest.NewRecorder()
					sc.Exp.HandleVarz(w, httptest.NewRequest("GET", "/varz", nil))
				case "varz-slow":
					// a client that reads slowly: the export spans many reloads
					sc.Exp.HandleVarz(&slowWriter{ResponseRecorder: httptest.NewRecorder(), d: 100 * time.Microsecond}, httptest.NewRequest("GET", "/varz", nil))
				case "graphite":
					w := httptest.NewRecorder()
					sc.Exp.HandleGraphite(w, httptest.NewRequest("GET", "/graphite", nil))
					c11CheckGraphiteHist(w.Body.String(), tornHist)
				case "push-graphite":
					_ = sc.Exp.VerifWriteSocketMetrics(io.Discard, "graphite")
				case "push-statsd":
					_ = sc.Exp.VerifWriteSocketMetrics(io.Discard, "statsd")
				case "push-collectd":
					_ = sc.Exp.VerifWriteSocketMetrics(io.Discard, "collectd")
				case "unload-load":
					p := 1 + (ai+r)%(np-1)
					loaderMu.Lock()
					func() {
						defer func() { _ = recover() }() // unloading twice concurrently is the harness's own doing
						e.r.UnloadProgram(name(p))
					}()
					ver++
					_ = e.r.CompileAndRun(name(p), strings.NewReader(c11Source(p, 100+ver)))
					loaderMu.Unlock()
				case "store-replace":
					// a reload as the store sees it: a metric of a program of its own
					// (no VM writes to it) is replaced by a fresh one with the same name,
					// type and source, again and again, while exports iterate the store.
					// It shares its name with the running programs' counter.
					m := metrics.NewMetric("lines_total", "z_"+tag+".mtail", metrics.Counter, metrics.Int)
					m.SetSource("z:1:9")
					if d, err := m.GetDatum(); err == nil {
						datum.SetInt(d, int64(r), time.Unix(1, 0))
					}
					if err := e.store.Add(m); err != nil {
						setFail(vstat.Failf("store-add-error", "%v", err))
					}
				case "api-inc":
					// several goroutines count into the same dimensioned metric through
					// the metric API, touching each label value for the first time at
					// about the same moment: no increment may be lost, no label value
					// may appear twice
					for k := 0; k < 10; k++ {
						d, err := apiMetric.GetDatum(fmt.Sprintf("r%d-k%d", r, k))
						if err != nil {
							setFail(vstat.Failf("api-error", "%v", err))
							break
						}
						datum.IncIntBy(d, 1, time.Unix(1, 0))
					}
					apiIncs.Add(1)
				case "marshal":
					b, _ := e.store.MarshalJSON()
					c11CheckJSONHist(b, "store-json", tornHist)
				case "hist-export":
					// the histogram's own exports, round robin, while it is being observed
					switch r % 4 {
					case 0:
						w := httptest.NewRecorder()
						sc.Exp.HandleJSON(w, httptest.NewRequest("GET", "/json", nil))
						c11CheckJSONHist(w.Body.Bytes(), "json", tornHist)
					case 1:
						if fams, _, gerr, _ := sc.Gather(); gerr == nil {
							if fam := fams["api_hist"]; fam != nil {
								for _, m := range fam.Metric {
									h := m.GetHistogram()
									for _, b := range h.GetBucket() {
										if b.GetUpperBound() == 1 {
											tornHist("prometheus", b.GetCumulativeCount(), h.GetSampleCount(), h.GetSampleSum())
										}
									}
								}
							}
						}
					case 2:
						w := httptest.NewRecorder()
						sc.Exp.HandleGraphite(w, httptest.NewRequest("GET", "/graphite", nil))
						c11CheckGraphiteHist(w.Body.String(), tornHist)
					default:
						b, _ := e.store.MarshalJSON()
						c11CheckJSONHist(b, "store-json", tornHist)
					}
				case "api-observe":
					// as a VM does: look the datum up (metric lock), then write to it
					// (datum lock only): the writes can land while an export holds
					// the metric's read lock
					var ds []datum.Datum
					for k := 0; k < 2; k++ {
						d, err := apiHist.GetDatum(fmt.Sprintf("h%d", k))
						if err != nil {
							setFail(vstat.Failf("api-error", "%v", err))
							break
						}
						ds = append(ds, d)
					}
					for k := 0; k < 300 && len(ds) == 2; k++ {
						datum.Observe(ds[k%2], 1.0, time.Unix(1, 0))
					}
				case "load-new":
					// a program nobody has seen, with metric names nobody has used:
					// genuinely new entries in the store while exports iterate it
					n := fmt.Sprintf("n%d_%d_%s.mtail", ai, r, tag)
					src := fmt.Sprintf("counter fresh_%d_%d_%s\n/^w/ {\n  fresh_%d_%d_%s++\n}\n", ai, r, tag, ai, r, tag)
					loaderMu.Lock()
					err := e.r.CompileAndRun(n, strings.NewReader(src))
					loaderMu.Unlock()
					if err != nil {
						setFail(vstat.Failf("load-error", "%v", err))
					}
				}
				s1 := seq.Load()
				if s1 > s0 || (s0 > 0 && s0 < int64(c.Lines)) {
					mu.Lock()
					overlapped[a.Kind] = true
					mu.Unlock()
				}
				if a.YieldUs > 0 {
					time.Sleep(time.Duration(a.YieldUs) * time.Microsecond)
				} else {
					goruntime.Gosched()
				}
			}
		}(ai, a)
	}
	close(feedStart)
	select {
	case <-feedDone:
	case <-time.After(120 * time.Second):
		return vstat.Failf("feeding-stalls", "the runtime stopped taking lines")
	}
	awg.Wait()
	info.overlapKinds = len(overlapped)
	if fail != nil {
		return fail
	}
	if !e.close() {
		return vstat.Failf("runtime-does-not-stop", "runtime did not shut down within 20 s")
	}
	// the API writers: label value r<i>-k<j> was incremented once by every api-inc
	// actor that reached repetition i
	if apiActors > 0 {
		want := map[string]int64{}
		for _, a := range c.Actors {
			if a.Kind != "api-inc" {
				continue
			}
			for r := 0; r < a.Reps; r++ {
				for k := 0; k < 10; k++ {
					want[fmt.Sprintf("r%d-k%d", r, k)]++
				}
			}
		}
		seen := map[string]bool{}
		apiMetric.RLock()
		lvs := append([]*metrics.LabelValue(nil), apiMetric.LabelValues...)
		apiMetric.RUnlock()
		for _, lv := range lvs {
			l := lv.Labels[0]
			if seen[l] {
				return vstat.Failf("label-value-twice", "label value %q of the API-written metric exists twice: two goroutines that touched it first at the same time each created it", l)
			}
			seen[l] = true
			if got := datum.GetInt(lv.Value); got != want[l] {
				return vstat.Failf("lost-update", "label value %q of the API-written metric counts %d, %d increments were made", l, got, want[l])
			}
		}
		if len(seen) != len(want) {
			return vstat.Failf("lost-update", "the API-written metric has %d label values, %d were created", len(seen), len(want))
		}
	}
	// lost updates: the never-reloaded program counted every matching line
	m := e.store.FindMetricOrNil("lines_total", name(0))
	if m == nil {
		return vstat.Failf("metric-missing", "lines_total of the never-reloaded program is gone")
	}
	d, err := m.GetDatum()
	if err != nil {
		return vstat.Failf("metric-missing", "%v", err)
	}
	if got := datum.GetInt(d); got != matching {
		return vstat.Failf("lost-update", "the never-reloaded program counted %d of %d matching lines (processed %d lines)", got, matching, processed(name(0))-base0)
	}
	_ = metrics.Int
	return nil
}

func c11RunRaw(raw json.RawMessage) *vstat.Failure {
	c, err := vstat.JSON[c11Case](raw)
	if err != nil || c.Lines == 0 {
		return vstat.Failf("bad-replay", "%v", err)
	}
	// a race is schedule dependent: run the plan several times
	for i := 0; i < 20; i++ {
		if f, _ := runC11(c); f != nil {
			return f
		}
	}
	return nil
}

var c11Kinds = []string{"gc", "gc", "reload", "reload", "prom", "prom", "json", "varz", "graphite", "push-graphite", "push-statsd", "push-collectd", "marshal", "load-new", "load-new", "varz-slow", "store-replace", "store-replace"}

func TestC11(t *testing.T) {
	st := vstat.New("C11", "workload plans run under the race detector: 2-4 programs (scalar and dimensioned counters creating label values continuously, a limit, del, del-after, a histogram) fed a generated line stream while 3-8 concurrent actors with drawn start offsets, repetition counts and pauses run store GC, program reloads, unload+load, Prometheus gather, the JSON/varz/graphite handlers, Store.MarshalJSON and the three push formats; GOMAXPROCS drawn from {2,4,16}. Oracles: no race-detector report; the never-reloaded program's counter equals the number of matching lines; its exported value stays within [0, lines]; every scrape succeeds; API writers' increments are all there and no label value appears twice; a histogram observed (always 1.0) through held datum pointers is exported by JSON, Prometheus and graphite with bucket, count and sum that agree (a state it really was in). non-trivial = a plan in which >= 3 kinds of actor overlapped with line processing; distinct by plan")
	st.Assumptions = []string{"the Go race detector reports only real races; absence of a report for the sampled schedules is not absence of races", "GORACE=halt_on_error=1: the first report ends the run, the plan being executed is the replay"}
	st.Run(t, c11RunRaw, func() {
		st.Check(t, func(rt *rapid.T) {
			var c c11Case
			defer st.Guard(func() any { return c })
			c.Progs = rapid.IntRange(2, 4).Draw(rt, "progs")
			c.Lines = rapid.IntRange(200, vstat.Scale(1500, 4000)).Draw(rt, "lines")
			c.Words = rapid.SampledFrom([]int{3, 10, 50}).Draw(rt, "words")
			c.GoMaxProcs = rapid.SampledFrom([]int{2, 4, 16}).Draw(rt, "gomaxprocs")
			c.PauseEvery = rapid.SampledFrom([]int{0, 1, 10}).Draw(rt, "pause")
			na := rapid.IntRange(3, 8).Draw(rt, "nactors")
			for i := 0; i < na; i++ {
				c.Actors = append(c.Actors, c11Actor{
					Kind:    rapid.SampledFrom(c11Kinds).Draw(rt, "kind"),
					Reps:    rapid.IntRange(1, 30).Draw(rt, "reps"),
					StartUs: rapid.SampledFrom([]int{0, 0, 100, 1000}).Draw(rt, "start"),
					YieldUs: rapid.SampledFrom([]int{0, 0, 50, 500}).Draw(rt, "yield"),
				})
			}
			if rapid.IntRange(0, 1).Draw(rt, "apiwriters") == 0 {
				n := rapid.IntRange(2, 4).Draw(rt, "napi")
				reps := rapid.IntRange(20, 100).Draw(rt, "apireps")
				for i := 0; i < n; i++ {
					c.Actors = append(c.Actors, c11Actor{Kind: "api-inc", Reps: reps})
				}
			}
			if rapid.IntRange(0, 1).Draw(rt, "apiobservers") == 0 {
				n := rapid.IntRange(1, 3).Draw(rt, "nobs")
				reps := rapid.IntRange(20, 100).Draw(rt, "obsreps")
				for i := 0; i < n; i++ {
					c.Actors = append(c.Actors, c11Actor{Kind: "api-observe", Reps: reps})
				}
				c.Actors = append(c.Actors, c11Actor{Kind: "hist-export", Reps: rapid.IntRange(40, 200).Draw(rt, "hexreps")})
			}
			if rapid.IntRange(0, 2).Draw(rt, "unloader") == 0 {
				// at most one actor unloads (UnloadProgram requires a loaded program)
				c.Actors = append(c.Actors, c11Actor{Kind: "unload-load", Reps: rapid.IntRange(1, 10).Draw(rt, "ureps"), YieldUs: 100})
			}
			st.SkipShrink(rt, c)
			f, info := runC11(c)
			st.Eval()
			for _, a := range c.Actors {
				st.Class("actor:" + a.Kind)
			}
			st.Class(fmt.Sprintf("overlapping-actor-kinds-%d", min(info.overlapKinds, 5)))
			if info.overlapKinds >= 3 {
				b, _ := json.Marshal(c)
				st.NonTrivial(string(b), c)
			}
			st.Report(rt, f, c)
		})
	})
}

// slowWriter delays every write of a response.
type slowWriter struct {
	*httptest.ResponseRecorder
	d time.Duration
}

func (w *slowWriter) Write(p []byte) (int, error) {
	time.Sleep(w.d)
	return w.ResponseRecorder.Write(p)
}

// c11CheckJSONHist finds histogram api_hist in a JSON export of the store and
// hands every label value's (bucket le=1, count, sum) to check.
func c11CheckJSONHist(body []byte, path string, check func(path string, le1, count uint64, sum float64)) {
	var ms []struct {
		Name        string
		LabelValues []struct {
			Value struct {
				Buckets map[string]uint64
				Count   uint64
				Sum     float64
			}
		}
	}
	if err := json.Unmarshal(body, &ms); err != nil {
		return // not this check's subject (C22)
	}
	for _, m := range ms {
		if m.Name != "api_hist" {
			continue
		}
		for _, lv := range m.LabelValues {
			check(path, lv.Value.Buckets["1"], lv.Value.Count, lv.Value.Sum)
		}
	}
}

// c11CheckGraphiteHist does the same for the graphite text (bin_1 and count
// lines per label value; the value line carries the sum).
func c11CheckGraphiteHist(text string, check func(path string, le1, count uint64, sum float64)) {
	type rec struct {
		bin1, count uint64
		sum         float64
		n           int
	}
	recs := map[string]*rec{}
	for _, l := range strings.Split(text, "\n") {
		f := strings.Fields(l)
		i := strings.Index(l, ".api_hist.k.")
		if len(f) != 3 || i < 0 {
			continue
		}
		key := strings.SplitN(f[0][i+len(".api_hist.k."):], ".", 2)
		r := recs[key[0]]
		if r == nil {
			r = &rec{}
			recs[key[0]] = r
		}
		switch {
		case len(key) == 2 && key[1] == "bin_1":
			r.bin1, _ = strconv.ParseUint(f[1], 10, 64)
			r.n++
		case len(key) == 2 && key[1] == "count":
			r.count, _ = strconv.ParseUint(f[1], 10, 64)
			r.n++
		case len(key) == 1:
			r.sum, _ = strconv.ParseFloat(f[1], 64)
			r.n++
		}
	}
	for _, r := range recs {
		if r.n == 3 {
			check("graphite", r.bin1, r.count, r.sum)
		}
	}
}
