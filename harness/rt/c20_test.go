package rt

// C20 — Lines reach each program in order, exactly once, across reloads.

import (
	"encoding/json"
	"fmt"
	"strconv"
	"strings"
	"sync/atomic"
	"testing"
	"time"

	"github.com/google/mtail/internal/metrics"
	"github.com/google/mtail/internal/metrics/datum"
	"github.com/google/mtail/verif/vstat"
	"pgregory.net/rapid"
)

type c20Reload struct {
	AfterLine int `json:"after_line"` // issue the reload once this many lines have been handed to the runtime
	DelayUs   int `json:"delay_us"`   // then wait this long first
	// Kind: "" a new version that loads; "broken" a text that does not compile;
	// "same" the running version's own bytes; "kind" a text in which gauge
	// `last` is declared a timer (same source position): the attempt may be
	// refused or accepted, and either way the lines go on being processed by
	// exactly one version
	Kind string `json:"kind,omitempty"`
}

type c20Case struct {
	N       int         `json:"n"`        // lines, ids 1..N
	HeavyKB map[int]int `json:"heavy_kb"` // line id -> payload size in KiB (a line that keeps a VM busy)
	PauseUs map[int]int `json:"pause_us"` // pause of the feeder before line id
	Reloads []c20Reload `json:"reloads"`
	Scans   int         `json:"scans"` // extra patterns evaluated before the writes (cost of a heavy line)
	// the program ends in `else { stop }` and lines that match nothing (taking
	// that path) are sent before the listed ids
	ElseStop   bool         `json:"else_stop,omitempty"`
	JunkBefore map[int]bool `json:"junk_before,omitempty"`
	// SlowScans: the extra patterns have no literal prefix, so each one walks
	// the whole of a heavy line (a line can take seconds)
	SlowScans bool `json:"slow_scans,omitempty"`
	// Sibling: a second program, never reloaded, that is as busy with every
	// line as the first (the dispatcher waits on one of them while the other is
	// reloaded); it must see every line exactly once
	Sibling bool `json:"sibling,omitempty"`
}

func c20Source(ver, scans int, elseStop bool) string {
	return c20SourceX(ver, scans, elseStop, false, "gauge")
}

func c20SourceX(ver, scans int, elseStop, slow bool, lastKind string) string {
	var sb strings.Builder
	sb.WriteString("counter seen by ver, id\n" + lastKind + " last\ngauge prev\ncounter inversions\ncounter finished by id\n")
	for i := 0; i < scans; i++ {
		if slow {
			fmt.Fprintf(&sb, "/[pq]+[qr]%d+zz$/ {\n  inversions += 1000\n}\n", i)
		} else {
			fmt.Fprintf(&sb, "/qq%dzz$/ {\n  inversions += 1000\n}\n", i)
		}
	}
	fmt.Fprintf(&sb, "/^(?P<id>\\d+)( [a-z ]*)?$/ {\n  seen[\"v%d\"][$id]++\n  $id < prev {\n    inversions++\n  }\n  prev = $id\n  last = $id\n  /(?P<tail>.?)$/ {\n    finished[$id]++\n  }\n}", ver)
	if elseStop {
		sb.WriteString(" else {\n  stop\n}")
	}
	sb.WriteString("\n")
	fmt.Fprintf(&sb, "# version %d\n", ver)
	return sb.String()
}

type c20Info struct {
	overlapped   int // reloads issued while the running version had not finished the lines it was given
	reloads      int
	kindAccepted int
}

func runC20(c c20Case) (*vstat.Failure, c20Info) {
	vstat.Begin(c)
	var info c20Info
	f := vstat.Catch(func() *vstat.Failure {
		tag := uniq()
		name := "r_" + tag + ".mtail"
		e, err := newEnv("")
		if err != nil {
			panic(err)
		}
		defer e.close()
		running := c20SourceX(1, c.Scans, c.ElseStop, c.SlowScans, "gauge")
		if err := e.r.CompileAndRun(name, strings.NewReader(running)); err != nil {
			return vstat.Failf("load-error", "%v", err)
		}
		sib := "s_" + tag + ".mtail"
		if c.Sibling {
			var sb strings.Builder
			sb.WriteString("counter sib_lines\n")
			for i := 0; i < c.Scans; i++ {
				if c.SlowScans {
					fmt.Fprintf(&sb, "/[pq]+[qr]%d+zz$/ {\n  sib_lines += 1000\n}\n", i)
				} else {
					fmt.Fprintf(&sb, "/qq%dzz$/ {\n  sib_lines += 1000\n}\n", i)
				}
			}
			sb.WriteString("/$/ {\n  sib_lines++\n}\n")
			if err := e.r.CompileAndRun(sib, strings.NewReader(sb.String())); err != nil {
				return vstat.Failf("load-error", "sibling: %v", err)
			}
		}
		// a reload that does not come back is a violation, not a reason to wait
		// for the driver's time limit
		load := func(text string) error {
			done := make(chan error, 1)
			go func() { done <- e.r.CompileAndRun(name, strings.NewReader(text)) }()
			select {
			case err := <-done:
				return err
			case <-time.After(90 * time.Second):
				panic(vstat.Hang{Msg: "a reload (CompileAndRun) did not return within 90 s while lines were being processed"})
			}
		}
		base := processed(name)
		sent := make(chan int, c.N+1)
		payloads := map[int]string{}
		for id, kb := range c.HeavyKB {
			payloads[id] = " " + strings.Repeat("abcdefg ", kb*128)
		}
		feedDone := make(chan struct{})
		var handed atomic.Int64 // lines (junk included) the runtime has taken
		go func() {
			defer close(feedDone)
			// a case that fails closes the line channel while lines are still being fed
			defer func() { _ = recover() }()
			for id := 1; id <= c.N; id++ {
				if us := c.PauseUs[id]; us > 0 {
					time.Sleep(time.Duration(us) * time.Microsecond)
				}
				if c.JunkBefore[id] {
					e.lines <- lineOf("not a numbered line")
					handed.Add(1)
				}
				e.lines <- lineOf(strconv.Itoa(id) + payloads[id])
				handed.Add(1)
				sent <- id
			}
		}()
		// reloads, in order of their trigger point
		nsent := 0
		ver := 1
		for _, rl := range c.Reloads {
			for nsent < rl.AfterLine && nsent < c.N {
				select {
				case <-sent:
					nsent++
				case <-time.After(60 * time.Second):
					return vstat.Failf("feeding-stalls", "the runtime did not take line %d within 60 s", nsent+1)
				}
			}
			if rl.DelayUs > 0 {
				time.Sleep(time.Duration(rl.DelayUs) * time.Microsecond)
			}
			if int64(processed(name)-base) < handed.Load() {
				info.overlapped++
			}
			ver++
			info.reloads++
			switch rl.Kind {
			case "broken":
				if err := load(c20SourceX(ver, c.Scans, c.ElseStop, c.SlowScans, "gauge") + "undeclared_metric++\n"); err == nil {
					return vstat.Failf("harness", "a text that uses an undeclared metric was loaded")
				}
			case "same":
				if err := load(running); err != nil {
					return vstat.Failf("reload-error", "reloading the running version's own text: %v", err)
				}
			case "kind":
				text := c20SourceX(ver, c.Scans, c.ElseStop, c.SlowScans, "timer")
				if err := load(text); err == nil {
					running = text
					info.kindAccepted++
				}
			default:
				text := c20SourceX(ver, c.Scans, c.ElseStop, c.SlowScans, "gauge")
				if err := load(text); err != nil {
					if info.kindAccepted > 0 {
						// `last` is a timer now: the gauge text may be refused in turn
						continue
					}
					return vstat.Failf("reload-error", "%v", err)
				}
				running = text
			}
		}
		select {
		case <-feedDone:
		case <-time.After(120 * time.Second):
			return vstat.Failf("feeding-stalls", "the runtime stopped taking lines (%d of %d taken)", nsent, c.N)
		}
		if !e.close() {
			return vstat.Failf("runtime-does-not-stop", "runtime did not shut down within 20 s")
		}
		// every VM has returned: read the final state from the store
		cells := map[int][]string{} // id -> list of "ver=count"
		finished := map[int]int64{} // id -> times the last statement of the block ran
		var last, inv int64 = -1, -1
		nSeen := 0
		_ = e.store.Range(func(m *metrics.Metric) error {
			if m.Program != name {
				return nil
			}
			m.RLock()
			defer m.RUnlock()
			switch m.Name {
			case "seen":
				nSeen++
				for _, lv := range m.LabelValues {
					id, _ := strconv.Atoi(lv.Labels[1])
					cells[id] = append(cells[id], fmt.Sprintf("%s=%d", lv.Labels[0], datum.GetInt(lv.Value)))
				}
			case "finished":
				for _, lv := range m.LabelValues {
					id, _ := strconv.Atoi(lv.Labels[0])
					finished[id] += datum.GetInt(lv.Value)
				}
			case "last":
				for _, lv := range m.LabelValues {
					last = datum.GetInt(lv.Value)
				}
			case "inversions":
				for _, lv := range m.LabelValues {
					inv = datum.GetInt(lv.Value)
				}
			}
			return nil
		})
		if c.Sibling {
			var sibLines int64 = -1
			_ = e.store.Range(func(m *metrics.Metric) error {
				if m.Program == sib && m.Name == "sib_lines" {
					m.RLock()
					for _, lv := range m.LabelValues {
						sibLines = datum.GetInt(lv.Value)
					}
					m.RUnlock()
				}
				return nil
			})
			if want := handed.Load(); sibLines != want {
				return vstat.Failf("sibling-program-missed-lines", "the program that was never reloaded counted %d lines, %d were handed to the runtime", sibLines, want)
			}
		}
		if nSeen != 1 {
			return vstat.Failf("metric-count", "the store holds %d metrics named seen for the program", nSeen)
		}
		for id := 1; id <= c.N; id++ {
			cs := cells[id]
			switch {
			case len(cs) == 0:
				return vstat.Failf("line-processed-by-neither-version", "line %d left no trace: no version's seen[...][%d] is exported (%d reloads, %d of them while the old version was busy)", id, id, info.reloads, info.overlapped)
			case len(cs) > 1:
				return vstat.Failf("line-processed-by-both-versions", "line %d was counted by more than one version: %v", id, cs)
			case !strings.HasSuffix(cs[0], "=1"):
				return vstat.Failf("line-processed-twice", "line %d: %s", id, cs[0])
			}
		}
		for id := 1; id <= c.N; id++ {
			if finished[id] != 1 {
				return vstat.Failf("line-processed-in-part", "line %d was begun by %v, but the last statement of its block ran %d times: the line was abandoned half way (%d reloads, %d of them while the old version was busy)", id, cells[id], finished[id], info.reloads, info.overlapped)
			}
		}
		if len(cells) != c.N {
			return vstat.Failf("unknown-line", "cells for %d ids, %d lines were sent", len(cells), c.N)
		}
		if inv != 0 {
			return vstat.Failf("effects-out-of-order", "inversions = %d: a line's writes were applied after those of a later line", inv)
		}
		if last != int64(c.N) {
			return vstat.Failf("last-written-value-not-last-line", "gauge last = %d after lines 1..%d: the last line's write was overwritten by an earlier line's", last, c.N)
		}
		return nil
	})
	return f, info
}

func c20RunRaw(raw json.RawMessage) *vstat.Failure {
	c, err := vstat.JSON[c20Case](raw)
	if err != nil || c.N == 0 {
		return vstat.Failf("bad-replay", "%v", err)
	}
	f, _ := runC20(c)
	return f
}

func TestC20(t *testing.T) {
	st := vstat.New("C20", "one program name, versions v1,v2,... with identical declarations (counter seen by ver,id; gauges last, prev; counter inversions), a stream of lines with increasing ids fed by one goroutine while another reloads the program at drawn points (after line k, plus 0-3000 us); drawn 'heavy' lines (64 KiB-4 MiB, several full-line regex scans before the writes) keep the old version busy while the swap happens (a few cases make such a line take seconds); some reload attempts do not install a new version (text that does not compile, the running version's own bytes, a text that changes the kind of a metric in place). Oracle on the final store after shutdown: every id counted exactly once by exactly one version, no inversion, last = last id. non-trivial = a reload issued while the running version had measurably not finished the lines handed to the runtime; distinct by case")
	st.Assumptions = []string{"timing decides only which interleaving is sampled and whether a case counts as non-trivial, never the verdict: the oracle is schedule-independent", "busy-ness at the swap is measured from the exported line-processing histogram"}
	st.Run(t, c20RunRaw, func() {
		st.Check(t, func(rt *rapid.T) {
			var c c20Case
			defer st.Guard(func() any { return c })
			c.N = rapid.IntRange(4, vstat.Scale(40, 80)).Draw(rt, "n")
			c.Scans = rapid.IntRange(0, 3).Draw(rt, "scans")
			c.HeavyKB, c.PauseUs = map[int]int{}, map[int]int{}
			nr := rapid.IntRange(1, 4).Draw(rt, "nreloads")
			at := 0
			for i := 0; i < nr; i++ {
				at += rapid.IntRange(1, c.N/nr).Draw(rt, "gap")
				if at > c.N {
					at = c.N
				}
				rl := c20Reload{AfterLine: at, DelayUs: rapid.SampledFrom([]int{0, 0, 50, 300, 1000, 3000}).Draw(rt, "delay"),
					Kind: rapid.SampledFrom([]string{"", "", "", "", "broken", "same", "kind"}).Draw(rt, "rkind")}
				if rl.Kind != "" {
					st.Class("reload-attempt:" + rl.Kind)
				}
				c.Reloads = append(c.Reloads, rl)
				// usually make the line just before the reload a heavy one
				if rapid.IntRange(0, 3).Draw(rt, "heavy") > 0 {
					c.HeavyKB[at] = rapid.SampledFrom([]int{64, 256, 1024, 2048, 4096}).Draw(rt, "kb")
					if rapid.Bool().Draw(rt, "holdnext") {
						// the next line comes late: the dispatcher is idle when the reload starts
						c.PauseUs[at+1] = rapid.SampledFrom([]int{5000, 20000, 50000}).Draw(rt, "hold")
					}
				}
			}
			np := rapid.IntRange(0, 3).Draw(rt, "npauses")
			for i := 0; i < np; i++ {
				c.PauseUs[rapid.IntRange(1, c.N).Draw(rt, "pauseat")] = rapid.SampledFrom([]int{10, 200, 2000}).Draw(rt, "pause")
			}
			if len(c.HeavyKB) > 0 && rapid.IntRange(0, vstat.Scale(24, 8)).Draw(rt, "slow") == 0 {
				// one line that takes seconds: no bound on how long the old version
				// may need for the line it is executing
				c.SlowScans = true
				c.Scans = rapid.IntRange(12, 20).Draw(rt, "slowscans")
				first := 0
				for k := range c.HeavyKB {
					if first == 0 || k < first {
						first = k
					}
				}
				c.HeavyKB = map[int]int{first: 8192}
				// the feeder holds the next line back, so that the dispatcher is idle
				// and the reload gets hold of the program while the slow line runs
				c.PauseUs[first+1] = 400000
				st.Class("line-taking-seconds")
			}
			if rapid.IntRange(0, 2).Draw(rt, "sibling") == 0 {
				c.Sibling = true
				st.Class("with-a-busy-sibling-program")
			}
			if rapid.Bool().Draw(rt, "elsestop") {
				c.ElseStop = true
				c.JunkBefore = map[int]bool{}
				nj := rapid.IntRange(1, 4).Draw(rt, "njunk")
				for i := 0; i < nj; i++ {
					c.JunkBefore[rapid.IntRange(1, c.N).Draw(rt, "junkat")] = true
				}
				st.Class("program-ends-in-else-stop")
			}
			st.SkipShrink(rt, c)
			f, info := runC20(c)
			st.Eval()
			st.ClassN("reloads", info.reloads)
			st.ClassN("reloads-while-old-version-busy", info.overlapped)
			if info.overlapped > 0 {
				b, _ := json.Marshal(c)
				st.NonTrivial(string(b), c)
			}
			st.Report(rt, f, c)
		})
	})
}
