package rt

// C14 — Program reload preserves state and never duplicates series.

import (
	"encoding/json"
	"fmt"
	"sort"
	"strconv"
	"strings"
	"sync"
	"testing"
	"time"

	"github.com/google/mtail/internal/metrics"
	"github.com/google/mtail/internal/metrics/datum"
	"github.com/google/mtail/internal/runtime"
	"github.com/google/mtail/verif/hx"
	"github.com/google/mtail/verif/vstat"
	"pgregory.net/rapid"
)

// ---- program versions

type c14Decl struct {
	Name  string `json:"name"` // ctot hits g extra shared
	Kind  string `json:"kind"` // counter gauge
	Float bool   `json:"float,omitempty"`
	Keys  int    `json:"keys,omitempty"` // hits: 1 or 2 keys
	Key0  string `json:"key0,omitempty"` // hits: name of the first key (k or kk)
	Swap  bool   `json:"swap,omitempty"` // hits with 2 keys: declared `by j, k` instead of `by k, j` (and indexed accordingly)
}

type c14Spec struct {
	Lead   int       `json:"lead"` // comment lines before the declarations
	Decls  []c14Decl `json:"decls"`
	Inc    int       `json:"inc"`   // ctot += Inc
	Trail  int       `json:"trail"` // comment lines at the end
	Broken bool      `json:"broken,omitempty"`
	Edit   string    `json:"edit"` // how this version was derived (for classification only)
}

func (s c14Spec) find(name string) (c14Decl, int, bool) {
	for i, d := range s.Decls {
		if d.Name == name {
			return d, s.Lead + i + 1, true
		}
	}
	return c14Decl{}, 0, false
}

// source prints the version; declaration i sits on line Lead+i+1.
func (s c14Spec) source() string {
	var sb strings.Builder
	for i := 0; i < s.Lead; i++ {
		fmt.Fprintf(&sb, "# lead comment %d\n", i)
	}
	for _, d := range s.Decls {
		sb.WriteString(d.Kind + " " + d.Name)
		if d.Name == "hits" {
			k0 := d.Key0
			if k0 == "" {
				k0 = "k"
			}
			switch {
			case d.Keys == 2 && d.Swap:
				sb.WriteString(" by j, " + k0)
			case d.Keys == 2:
				sb.WriteString(" by " + k0 + ", j")
			default:
				sb.WriteString(" by " + k0)
			}
		}
		sb.WriteString("\n")
	}
	sb.WriteString("\n")
	for _, d := range s.Decls {
		switch d.Name {
		case "ctot":
			inc := s.Inc
			if inc == 0 {
				inc = 1
			}
			fmt.Fprintf(&sb, "/^c$/ {\n  ctot += %d\n}\n", inc)
		case "hits":
			idx := func(c string) string {
				if d.Keys == 2 && d.Swap {
					return "hits[\"x\"][$" + c + "]"
				}
				if d.Keys == 2 {
					return "hits[$" + c + "][\"x\"]"
				}
				return "hits[$" + c + "]"
			}
			fmt.Fprintf(&sb, "/^h (?P<hk>\\w+)$/ {\n  %s++\n}\n", idx("hk"))
			fmt.Fprintf(&sb, "/^x (?P<xk>\\w+)$/ {\n  del %s after 1h\n}\n", idx("xk"))
			fmt.Fprintf(&sb, "/^d (?P<dk>\\w+)$/ {\n  del %s\n}\n", idx("dk"))
		case "g":
			if d.Float {
				sb.WriteString("/^g (?P<gv>\\d+)$/ {\n  g = $gv + 0.5\n}\n")
			} else {
				sb.WriteString("/^g (?P<gv>\\d+)$/ {\n  g = $gv\n}\n")
			}
		case "extra":
			sb.WriteString("/^e$/ {\n  extra++\n}\n")
		case "shared":
			sb.WriteString("/^s$/ {\n  shared++\n}\n")
		}
	}
	for i := 0; i < s.Trail; i++ {
		fmt.Fprintf(&sb, "# trailing comment %d\n", i)
	}
	if s.Broken {
		sb.WriteString("/unterminated {\n")
	}
	return sb.String()
}

// ---- model

type c14Datum struct {
	i      int64
	f      float64
	expiry time.Duration
}

type c14Metric struct {
	decl  c14Decl
	line  int
	data  map[string]*c14Datum // key: labels joined by \x00
	loose bool                 // declaration moved: kept or fresh are both acceptable at the next comparison
	fresh map[string]*c14Datum // the alternative state while loose
	// orphan: the running version no longer declares it (statement is silent
	// about whether it stays exported; only duplicates are forbidden)
	orphan bool
}

type c14Prog struct {
	name    string
	running *c14Spec
	metrics map[string]*c14Metric
}

func c14FreshData(d c14Decl) map[string]*c14Datum {
	m := map[string]*c14Datum{}
	// only scalar counters exist (as zero) from load; any other datum comes
	// into existence with its first write
	if d.Name != "hits" && d.Kind == "counter" {
		m[""] = &c14Datum{}
	}
	return m
}

func c14Copy(m map[string]*c14Datum) map[string]*c14Datum {
	o := map[string]*c14Datum{}
	for k, v := range m {
		c := *v
		o[k] = &c
	}
	return o
}

func sameDecl(a, b c14Decl) bool {
	ak, bk := a.Key0, b.Key0
	if ak == "" {
		ak = "k"
	}
	if bk == "" {
		bk = "k"
	}
	return a.Name == b.Name && a.Kind == b.Kind && a.Float == b.Float && a.Keys == b.Keys && (a.Name != "hits" || ak == bk) && (a.Keys != 2 || a.Swap == b.Swap)
}

// applyLine runs one line through the model of program p.
func (p *c14Prog) applyLine(mets map[string]*c14Metric, text string) {
	if p.running == nil {
		return
	}
	sp := p.running
	f := strings.Fields(text)
	if len(f) == 0 {
		return
	}
	get := func(name string) *c14Metric {
		if _, _, ok := sp.find(name); !ok {
			return nil
		}
		m := mets[name]
		if m != nil && name != "hits" && m.data[""] == nil {
			m.data[""] = &c14Datum{}
		}
		return m
	}
	key := func(m *c14Metric, k string) string {
		if m.decl.Keys == 2 && m.decl.Swap {
			return "x\x00" + k
		}
		if m.decl.Keys == 2 {
			return k + "\x00x"
		}
		return k
	}
	switch {
	case text == "c":
		if m := get("ctot"); m != nil {
			inc := sp.Inc
			if inc == 0 {
				inc = 1
			}
			m.data[""].i += int64(inc)
		}
	case text == "e":
		if m := get("extra"); m != nil {
			m.data[""].i++
		}
	case text == "s":
		if m := get("shared"); m != nil {
			m.data[""].i++
		}
	case len(f) == 2 && f[0] == "h":
		if m := get("hits"); m != nil {
			k := key(m, f[1])
			if m.data[k] == nil {
				m.data[k] = &c14Datum{}
			}
			m.data[k].i++
		}
	case len(f) == 2 && f[0] == "x":
		if m := get("hits"); m != nil {
			if d := m.data[key(m, f[1])]; d != nil {
				d.expiry = time.Hour
			}
		}
	case len(f) == 2 && f[0] == "d":
		if m := get("hits"); m != nil {
			delete(m.data, key(m, f[1]))
		}
	case len(f) == 2 && f[0] == "g":
		if m := get("g"); m != nil {
			n, err := strconv.Atoi(f[1])
			if err == nil {
				if m.decl.Float {
					m.data[""].f = float64(n) + 0.5
				} else {
					m.data[""].i = int64(n)
				}
			}
		}
	}
}

// ---- the case

type c14Step struct {
	Op    string   `json:"op"` // load unload lines gc
	Prog  int      `json:"prog"`
	Spec  *c14Spec `json:"spec,omitempty"`
	Lines []string `json:"lines,omitempty"`
}

type c14Case struct {
	Steps []c14Step `json:"steps"`
}

func c14DumpData(m map[string]*c14Datum, float bool) string {
	var rows []string
	for k, d := range m {
		v := fmt.Sprintf("i:%d", d.i)
		if float {
			v = fmt.Sprintf("f:%v", d.f)
		}
		rows = append(rows, fmt.Sprintf("%q=%s exp=%d", strings.Split(k, "\x00"), v, int64(d.expiry)))
	}
	sort.Strings(rows)
	return strings.Join(rows, "; ")
}

func c14DumpReal(m *metrics.Metric) string {
	m.RLock()
	defer m.RUnlock()
	var rows []string
	for _, lv := range m.LabelValues {
		var v string
		switch d := lv.Value.(type) {
		case *datum.Int:
			v = fmt.Sprintf("i:%d", d.Get())
		case *datum.Float:
			v = fmt.Sprintf("f:%v", d.Get())
		default:
			v = fmt.Sprintf("?%T", d)
		}
		labels := lv.Labels
		if len(labels) == 0 {
			labels = []string{""}
		}
		rows = append(rows, fmt.Sprintf("%q=%s exp=%d", labels, v, int64(lv.Expiry)))
	}
	sort.Strings(rows)
	return strings.Join(rows, "; ")
}

func runC14(c c14Case) *vstat.Failure {
	vstat.Begin(c)
	return vstat.Catch(func() *vstat.Failure { return runC14x(c) })
}

func runC14x(c c14Case) *vstat.Failure {
	tag := uniq()
	e, err := newEnv("")
	if err != nil {
		panic(err)
	}
	defer e.close()
	sc, err := hx.NewScraper(e.store)
	if err != nil {
		panic(err)
	}
	defer sc.Close()
	progs := []*c14Prog{
		{name: "a_" + tag + ".mtail", metrics: map[string]*c14Metric{}},
		{name: "b_" + tag + ".mtail", metrics: map[string]*c14Metric{}},
	}
	// a witness program keeps the dispatcher observable (see C26)
	wit := "w_" + tag + ".mtail"
	if err := e.r.CompileAndRun(wit, strings.NewReader("counter witness_lines\n/$/ {\n  witness_lines++\n}\n")); err != nil {
		return vstat.Failf("witness-load", "%v", err)
	}
	e.markRunning(wit, true)

	// kindConflict: does a registered metric (model) of that name have another
	// kind? strict = a metric declared by a version that is running now; loose =
	// only metrics left behind by a dropped declaration or an unloaded program
	kindConflict := func(name, kind string) (strict, loose bool) {
		for _, p := range progs {
			if m := p.metrics[name]; m != nil && m.decl.Kind != kind {
				if m.orphan {
					loose = true
				} else {
					strict = true
				}
			}
		}
		return
	}
	dumpAll := func() string {
		return hx.DumpStore(e.store, "", hx.DumpOpts{Times: true, Expiry: true, Order: true, Source: true})
	}
	scrape := func() (string, *vstat.Failure) {
		_, text, gerr, perr := sc.Gather()
		if gerr != nil {
			sig := "scrape-fails"
			if strings.Contains(gerr.Error(), "was collected before with the same name and label values") {
				sig = "duplicate-series"
			}
			return text, vstat.Failf(sig, "gathering the exporter fails: %v", gerr)
		}
		if perr != nil {
			return text, vstat.Failf("scrape-unparseable", "%v", perr)
		}
		// drop the witness and timing-free: values only
		var keep []string
		for _, l := range strings.Split(text, "\n") {
			if strings.Contains(l, "witness_lines") {
				continue
			}
			keep = append(keep, l)
		}
		return strings.Join(keep, "\n"), nil
	}
	// compare the store with the model
	compare := func(step int, what string) *vstat.Failure {
		for _, p := range progs {
			var real []*metrics.Metric
			_ = e.store.Range(func(m *metrics.Metric) error {
				if m.Program == p.name {
					real = append(real, m)
				}
				return nil
			})
			byName := map[string][]*metrics.Metric{}
			for _, m := range real {
				byName[m.Name] = append(byName[m.Name], m)
			}
			for name, ms := range byName {
				if len(ms) > 1 {
					return vstat.Failf("duplicate-series", "step %d (%s): the store holds %d metrics named %s for program %s (sources %s, %s): the export carries the same series twice", step, what, len(ms), name, p.name, ms[0].Source, ms[1].Source)
				}
				if p.metrics[name] == nil {
					return vstat.Failf("unexpected-metric", "step %d (%s): program %s has a metric %s in the store that no successfully loaded version declared", step, what, p.name, name)
				}
			}
			for name, mm := range p.metrics {
				ms := byName[name]
				if len(ms) == 0 {
					if mm.orphan {
						continue
					}
					return vstat.Failf("metric-missing", "step %d (%s): metric %s of program %s is not in the store", step, what, name, p.name)
				}
				r := ms[0]
				if mm.orphan {
					continue
				}
				wantKind := map[string]metrics.Kind{"counter": metrics.Counter, "gauge": metrics.Gauge}[mm.decl.Kind]
				wantType := metrics.Int
				if mm.decl.Float {
					wantType = metrics.Float
				}
				nk := 0
				if name == "hits" {
					nk = mm.decl.Keys
				}
				if r.Kind != wantKind || r.Type != wantType || len(r.Keys) != nk {
					return vstat.Failf("metric-shape", "step %d (%s): metric %s of %s is %v/%v keys=%v, the running version declares %+v", step, what, name, p.name, r.Kind, r.Type, r.Keys, mm.decl)
				}
				got := c14DumpReal(r)
				want := c14DumpData(mm.data, mm.decl.Float)
				if mm.loose {
					alt := c14DumpData(mm.fresh, mm.decl.Float)
					switch got {
					case want:
					case alt:
						mm.data = mm.fresh
					default:
						return vstat.Failf("state-after-moved-declaration", "step %d (%s): metric %s of %s holds {%s}; neither the kept state {%s} nor a fresh one {%s}", step, what, name, p.name, got, want, alt)
					}
					mm.loose, mm.fresh = false, nil
					continue
				}
				if got != want {
					sig := "state-mismatch"
					if strings.Contains(what, "after-reload") {
						sig = "state-lost-on-reload"
					}
					if strings.Contains(what, "failed-load") {
						sig = "failed-load-changed-state"
					}
					if strings.Replace(got, "exp=3600000000000", "exp=0", -1) == strings.Replace(want, "exp=3600000000000", "exp=0", -1) {
						sig = "expiry-lost"
					}
					return vstat.Failf(sig, "step %d (%s): metric %s of %s holds {%s}, model {%s}", step, what, name, p.name, got, want)
				}
			}
		}
		return nil
	}

	failedLoadPending := false
	for si, st := range c.Steps {
		p := progs[st.Prog%2]
		switch st.Op {
		case "lines":
			for _, l := range st.Lines {
				e.feed("log", l)
				for _, q := range progs {
					q.applyLine(q.metrics, l)
				}
			}
			if late := e.quiesce(10 * time.Second); late != nil {
				return vstat.Failf("lines-not-processed", "step %d: programs %v did not process the lines sent", si, late)
			}
			what := "lines"
			if failedLoadPending {
				what = "lines-after-failed-load"
			}
			if f := compare(si, what); f != nil {
				return f
			}
			if _, f := scrape(); f != nil {
				f.Msg = fmt.Sprintf("step %d: %s", si, f.Msg)
				return f
			}
		case "gc":
			if err := e.store.Gc(); err != nil {
				return vstat.Failf("gc-error", "%v", err)
			}
			if f := compare(si, "gc"); f != nil {
				return f
			}
		case "unload":
			if p.running == nil {
				continue
			}
			e.r.UnloadProgram(p.name)
			p.running = nil
			e.markRunning(p.name, false)
			for _, mm := range p.metrics {
				mm.orphan = true // whether an unloaded program's metrics stay exported is not stated
			}
			if f := compare(si, "unload"); f != nil {
				return f
			}
		case "load":
			sp := *st.Spec
			src := sp.source()
			before := dumpAll()
			scrapeBefore, f := scrape()
			if f != nil {
				return f
			}
			loads0 := mapVal(runtime.ProgLoads, p.name)
			identical := p.running != nil && p.running.source() == src
			// model: will it be refused?
			refused, maybeRefused := "", false
			if sp.Broken {
				refused = "syntax error"
			} else {
				for _, d := range sp.Decls {
					strict, loose := kindConflict(d.Name, d.Kind)
					if strict {
						refused = "kind of " + d.Name + " differs from a registered metric"
						break
					}
					if loose {
						// the name is only held by a dropped declaration or an unloaded
						// program: the statement does not say whether that still counts
						maybeRefused = true
					}
				}
			}
			// scrapes go on while the program is (re)loaded: none of them may fail
			stopScrape := make(chan struct{})
			scrapeErr := make(chan error, 4)
			var swg sync.WaitGroup
			for g := 0; g < 3; g++ {
				swg.Add(1)
				go func() {
					defer swg.Done()
					for {
						select {
						case <-stopScrape:
							return
						default:
						}
						if _, gerr := sc.Reg.Gather(); gerr != nil {
							select {
							case scrapeErr <- gerr:
							default:
							}
							return
						}
					}
				}()
			}
			err := e.r.CompileAndRun(p.name, strings.NewReader(src))
			close(stopScrape)
			swg.Wait()
			select {
			case gerr := <-scrapeErr:
				sig := "scrape-fails-during-load"
				if strings.Contains(gerr.Error(), "was collected before with the same name and label values") {
					sig = "duplicate-series-during-load"
				}
				return vstat.Failf(sig, "step %d: a scrape running while %s was being loaded (%s) failed: %v", si, p.name, sp.Edit, gerr)
			default:
			}
			if refused == "" && maybeRefused && err != nil {
				// permitted only if such a metric really is still registered
				conflict := false
				_ = e.store.Range(func(m *metrics.Metric) error {
					for _, d := range sp.Decls {
						want := map[string]metrics.Kind{"counter": metrics.Counter, "gauge": metrics.Gauge}[d.Kind]
						if m.Name == d.Name && m.Kind != want {
							conflict = true
						}
					}
					return nil
				})
				if !conflict {
					return vstat.Failf("load-refused-without-kind-conflict", "step %d: %s compiles and no registered metric has one of its names with another kind, yet the load was refused: %v\n%s", si, p.name, err, src)
				}
				refused = "kind differs from a metric left behind by a dropped declaration or an unloaded program"
			}
			switch {
			case identical:
				if err != nil {
					return vstat.Failf("identical-reload-error", "step %d: reloading identical source returned %v", si, err)
				}
				if after := dumpAll(); after != before {
					return vstat.Failf("identical-reload-changed-state", "step %d: reloading identical source changed the store: %s", si, firstDiffLine(after, before))
				}
				if l := mapVal(runtime.ProgLoads, p.name); l != loads0 {
					return vstat.Failf("identical-reload-counted", "step %d: reloading identical source counted as a load", si)
				}
			case refused != "":
				if err == nil {
					return vstat.Failf("bad-load-accepted", "step %d: a load that must fail (%s) succeeded\n%s", si, refused, src)
				}
				failedLoadPending = true
				if after := dumpAll(); after != before {
					return vstat.Failf("failed-load-changed-export", "step %d: a failed load (%s) changed the store: %s", si, refused, firstDiffLine(after, before))
				}
				sa, f := scrape()
				if f != nil {
					f.Msg = fmt.Sprintf("step %d after failed load: %s", si, f.Msg)
					return f
				}
				if sa != scrapeBefore {
					return vstat.Failf("failed-load-changed-export", "step %d: a failed load (%s) changed the scrape: %s", si, refused, firstDiffLine(sa, scrapeBefore))
				}
			default:
				if err != nil {
					return vstat.Failf("good-load-refused", "step %d: a valid version was not loaded: %v\n%s", si, err, src)
				}
				// model of a successful (re)load
				if maybeRefused {
					// accepted: the left-behind metrics of another kind are gone
					for _, d := range sp.Decls {
						for _, q := range progs {
							if m := q.metrics[d.Name]; m != nil && m.orphan && m.decl.Kind != d.Kind {
								delete(q.metrics, d.Name)
							}
						}
					}
				}
				declared := map[string]bool{}
				for _, d := range sp.Decls {
					_, line, _ := sp.find(d.Name)
					declared[d.Name] = true
					old := p.metrics[d.Name]
					nm := &c14Metric{decl: d, line: line}
					switch {
					case old == nil:
						nm.data = c14FreshData(d)
					case old.orphan:
						// re-declared after a version without it: silent
						nm.data = c14Copy(old.data)
						nm.loose, nm.fresh = true, c14FreshData(d)
						if !sameDecl(old.decl, d) {
							nm.data, nm.loose, nm.fresh = c14FreshData(d), false, nil
						}
					case sameDecl(old.decl, d) && old.line == line:
						nm.data = c14Copy(old.data)
					case sameDecl(old.decl, d):
						nm.data = c14Copy(old.data)
						nm.loose, nm.fresh = true, c14FreshData(d)
					default:
						nm.data = c14FreshData(d)
					}
					p.metrics[d.Name] = nm
				}
				for n, mm := range p.metrics {
					if !declared[n] {
						mm.orphan = true
					}
				}
				spc := sp
				p.running = &spc
				e.markRunning(p.name, true)
				if f := compare(si, "after-reload:"+sp.Edit); f != nil {
					return f
				}
				if _, f := scrape(); f != nil {
					f.Msg = fmt.Sprintf("step %d after reload (%s): %s", si, sp.Edit, f.Msg)
					return f
				}
			}
		}
	}
	if !e.close() {
		return vstat.Failf("runtime-does-not-stop", "runtime did not shut down within 20 s")
	}
	return nil
}

func c14RunRaw(raw json.RawMessage) *vstat.Failure {
	c, err := vstat.JSON[c14Case](raw)
	if err != nil {
		return vstat.Failf("bad-replay", "%v", err)
	}
	return runC14(c)
}

// c14Base is the first version of a program.
func c14Base(prog int) c14Spec {
	s := c14Spec{Inc: 1, Edit: "base", Decls: []c14Decl{
		{Name: "ctot", Kind: "counter"},
		{Name: "hits", Kind: "counter", Keys: 1 + prog%2},
		{Name: "g", Kind: "gauge"},
	}}
	if prog == 0 {
		s.Decls = append(s.Decls, c14Decl{Name: "shared", Kind: "counter"})
	}
	return s
}

// c14Edit derives a new version from cur.
func c14Edit(rt *rapid.T, cur c14Spec, prog int, edits []string) c14Spec {
	n := cur
	n.Decls = append([]c14Decl(nil), cur.Decls...)
	n.Broken = false
	ed := rapid.SampledFrom(edits).Draw(rt, "edit")
	n.Edit = ed
	pickDecl := func() int { return rapid.IntRange(0, len(n.Decls)-1).Draw(rt, "decl") }
	switch ed {
	case "identical":
	case "trailing-comment":
		n.Trail++
	case "leading-comment":
		n.Lead++
	case "remove-leading-comment":
		if n.Lead > 0 {
			n.Lead--
		} else {
			n.Lead++
		}
	case "swap-declarations":
		if len(n.Decls) >= 2 {
			i := rapid.IntRange(0, len(n.Decls)-2).Draw(rt, "swap")
			n.Decls[i], n.Decls[i+1] = n.Decls[i+1], n.Decls[i]
		}
	case "kind-changed":
		i := pickDecl()
		if n.Decls[i].Kind == "counter" {
			n.Decls[i].Kind = "gauge"
		} else {
			n.Decls[i].Kind = "counter"
		}
	case "type-changed":
		for i := range n.Decls {
			if n.Decls[i].Name == "g" {
				n.Decls[i].Float = !n.Decls[i].Float
			}
		}
	case "keys-changed":
		for i := range n.Decls {
			if n.Decls[i].Name == "hits" {
				if n.Decls[i].Keys == 2 && rapid.IntRange(0, 2).Draw(rt, "swapkeys") == 0 {
					// the same two key names, listed the other way round
					n.Decls[i].Swap = !n.Decls[i].Swap
				} else if rapid.Bool().Draw(rt, "keycount") {
					n.Decls[i].Keys = 3 - n.Decls[i].Keys
				} else if n.Decls[i].Key0 == "kk" {
					n.Decls[i].Key0 = ""
				} else {
					n.Decls[i].Key0 = "kk"
				}
			}
		}
	case "declaration-added":
		name := rapid.SampledFrom([]string{"extra", "g", "hits", "ctot"}).Draw(rt, "addname")
		if _, _, ok := n.find(name); !ok {
			d := c14Decl{Name: name, Kind: "counter"}
			if name == "g" {
				d.Kind = "gauge"
			}
			if name == "hits" {
				d.Keys = 1
			}
			at := rapid.IntRange(0, len(n.Decls)).Draw(rt, "addat")
			n.Decls = append(n.Decls[:at], append([]c14Decl{d}, n.Decls[at:]...)...)
		}
	case "declaration-removed":
		if len(n.Decls) >= 2 {
			i := pickDecl()
			n.Decls = append(n.Decls[:i], n.Decls[i+1:]...)
		}
	case "behaviour-changed":
		n.Inc = 1 + n.Inc%3
	case "syntax-error":
		n.Broken = true
	case "collide-with-other-program":
		// the other program (0) registers `counter shared`; declare it as a gauge,
		// after the other declarations so that a partial registration shows
		if _, _, ok := n.find("shared"); !ok {
			k := "gauge"
			if prog == 0 {
				k = "counter"
			}
			n.Decls = append(n.Decls, c14Decl{Name: "shared", Kind: k})
		} else if prog == 1 {
			for i := range n.Decls {
				if n.Decls[i].Name == "shared" {
					n.Decls[i].Kind = "gauge"
				}
			}
		}
	}
	return n
}

var c14AllEdits = []string{"identical", "trailing-comment", "leading-comment", "remove-leading-comment", "swap-declarations", "kind-changed", "kind-changed", "type-changed", "keys-changed", "keys-changed", "declaration-added", "declaration-removed", "behaviour-changed", "syntax-error", "collide-with-other-program"}

func TestC14(t *testing.T) {
	st := vstat.New("C14", "histories over two program names and a family of versions of one template program (identical, trailing/leading comment, declarations swapped, kind/type/keys changed (number of keys, a key's name, the order of the same two keys), declaration added/removed, behaviour changed, syntax error, kind collision with the other program), interleaved with line batches (increments, new label sets, del, del-after marks), unloads and GC; after every step the store is compared with a model and the exporter is scraped. non-trivial = a history with a successful reload of changed source after data exists AND a failed load followed by lines; distinct by history")
	st.Assumptions = []string{"quiescence (lines fully processed) is read from the exported line-processing histogram before every control action", "where a declaration moves to another line the statement is silent: kept or fresh state are both accepted", "a metric whose declaration a later version drops is not compared (only duplicates are forbidden)"}
	st.Run(t, c14RunRaw, func() {
		edits := c14AllEdits
		var excluded []string
		drop := func(id string, names ...string) {
			if st.IsLive(id) {
				var keep []string
				for _, e := range edits {
					del := false
					for _, n := range names {
						if e == n {
							del = true
						}
					}
					if !del {
						keep = append(keep, e)
					}
				}
				edits = keep
				excluded = append(excluded, id)
			}
		}
		drop("C14-1", "leading-comment", "remove-leading-comment", "swap-declarations", "declaration-added", "declaration-removed", "type-changed")
		drop("C14-3", "kind-changed", "collide-with-other-program")
		lineP := []string{"c", "c", "h a", "h b", "h c", "h d", "h e", "x a", "x b", "x c", "d a", "d b", "g 5", "g 7", "e", "s", "zzz"}
		st.Check(t, func(rt *rapid.T) {
			var c c14Case
			defer st.Guard(func() any { return c })
			cur := []c14Spec{c14Base(0), c14Base(1)}
			loaded := []bool{false, false}
			n := rapid.IntRange(6, vstat.Scale(16, 22)).Draw(rt, "nsteps")
			changedReloadAfterData, failedThenLines, failedPending, haveData := false, false, false, false
			marks := false
			for i := 0; i < n; i++ {
				op := rapid.SampledFrom([]string{"load", "load", "load", "lines", "lines", "lines", "unload", "gc"}).Draw(rt, "op")
				pr := rapid.IntRange(0, 1).Draw(rt, "prog")
				switch op {
				case "load":
					var sp c14Spec
					if !loaded[pr] && rapid.IntRange(0, 3).Draw(rt, "firstbase") > 0 {
						sp = cur[pr]
					} else {
						sp = c14Edit(rt, cur[pr], pr, edits)
					}
					c.Steps = append(c.Steps, c14Step{Op: "load", Prog: pr, Spec: &sp})
					st.Class("edit:" + sp.Edit)
					bad := sp.Broken || sp.Edit == "kind-changed" || sp.Edit == "collide-with-other-program"
					if bad {
						failedPending = true
					} else {
						if loaded[pr] && haveData && sp.Edit != "identical" && sp.Edit != "base" {
							changedReloadAfterData = true
						}
						cur[pr] = sp
						loaded[pr] = true
					}
				case "lines":
					nl := rapid.IntRange(1, 6).Draw(rt, "nlines")
					var ls []string
					for j := 0; j < nl; j++ {
						l := rapid.SampledFrom(lineP).Draw(rt, "line")
						if l[0] == 'x' {
							marks = true
						}
						ls = append(ls, l)
					}
					c.Steps = append(c.Steps, c14Step{Op: "lines", Lines: ls})
					if loaded[0] || loaded[1] {
						haveData = true
					}
					if failedPending {
						failedThenLines = true
					}
				case "unload":
					c.Steps = append(c.Steps, c14Step{Op: "unload", Prog: pr})
					loaded[pr] = false
				case "gc":
					c.Steps = append(c.Steps, c14Step{Op: "gc"})
				}
			}
			st.Eval()
			for _, id := range excluded {
				st.Excluded(id)
			}
			if marks {
				st.Class("history-with-expiry-marks")
			}
			if changedReloadAfterData {
				st.Class("changed-reload-after-data")
			}
			if failedThenLines {
				st.Class("failed-load-then-lines")
			}
			if changedReloadAfterData && failedThenLines {
				b, _ := json.Marshal(c)
				st.NonTrivial(string(b), c)
			}
			st.SkipShrink(rt, c)
			st.Report(rt, runC14(c), c)
		})
	})
}
