package rt

// C06 — Programs are isolated from each other.

import (
	"encoding/json"
	"fmt"
	"sort"
	"strings"
	"sync"
	"testing"
	"time"

	"github.com/google/mtail/internal/metrics"
	"github.com/google/mtail/verif/gen"
	"github.com/google/mtail/verif/hx"
	"github.com/google/mtail/verif/vstat"
	"pgregory.net/rapid"
)

type c06Line struct {
	File string `json:"file"`
	Text string `json:"text"`
}

type c06Step struct {
	Op    string    `json:"op"` // load unload lines
	Prog  int       `json:"prog"`
	Lines []c06Line `json:"lines,omitempty"`
}

type c06Case struct {
	Progs   []*gen.Program `json:"progs"`
	Broken  []bool         `json:"broken"` // a syntax error is appended to program i
	Sources []string       `json:"sources"`
	Steps   []c06Step      `json:"steps"`
	// Extra: hand-written programs appended to the set (a pair that marks label
	// values for expiry / keeps the same label values, so that a GC pass has
	// something to get wrong)
	Extra []string `json:"extra,omitempty"`
	Storm int      `json:"storm"` // reloads of every running program after the history
}

func (c *c06Case) n() int { return len(c.Progs) + len(c.Extra) }

func (c *c06Case) source(i int) string {
	if i >= len(c.Progs) {
		return c.Extra[i-len(c.Progs)]
	}
	s := c.Progs[i].Source()
	if i < len(c.Broken) && c.Broken[i] {
		s += "\n/unterminated {\n"
	}
	return s
}

// c06Run is the observable outcome of one run of a history.
type c06Run struct {
	dumps    []map[int]string // after each step: program -> canonical dump of its metrics
	scrape   map[int][]string // at the end: program -> its sample lines
	scrapeOK bool
	refused  map[int]string // program -> reason (a load of it returned an error although its source compiles)
	loadedOK map[int]bool
	fail     *vstat.Failure
}

// c06Exec runs the history; with only >= 0 the load/unload events of the other
// programs are left out (the lines are not).
func c06Exec(c *c06Case, tag string, only int, compiles []bool, kinds []map[string]metrics.Kind) c06Run {
	res := c06Run{scrape: map[int][]string{}, refused: map[int]string{}, loadedOK: map[int]bool{}}
	e, err := newEnv("")
	if err != nil {
		panic(err)
	}
	defer e.close()
	// registered while the store is empty, as the server does
	sc, err := hx.NewScraper(e.store)
	if err != nil {
		panic(err)
	}
	defer sc.Close()
	name := func(i int) string { return fmt.Sprintf("p%d_%s.mtail", i, tag) }
	wit := "w_" + tag + ".mtail"
	if err := e.r.CompileAndRun(wit, strings.NewReader("counter witness_lines\n/$/ {\n  witness_lines++\n}\n")); err != nil {
		res.fail = vstat.Failf("witness-load", "%v", err)
		return res
	}
	e.markRunning(wit, true)
	running := map[int]bool{}
	snapshot := func() {
		d := map[int]string{}
		for i := 0; i < c.n(); i++ {
			d[i] = hx.DumpStore(e.store, name(i), hx.DumpOpts{Expiry: true})
		}
		res.dumps = append(res.dumps, d)
	}
	// the generated history is followed by a reload storm: every running program
	// is unloaded and loaded again a few times (each load replaces its metrics in
	// the store while scrapes are in flight)
	steps := append([]c06Step(nil), c.Steps...)
	if c.Storm > 0 {
		for i := 0; i < c.n(); i++ {
			for k := 0; k < c.Storm; k++ {
				steps = append(steps, c06Step{Op: "unload", Prog: i}, c06Step{Op: "load-if-was-running", Prog: i})
			}
		}
	}
	wasRunning := map[int]bool{}
	for si, st := range steps {
		p := st.Prog % c.n()
		if st.Op == "unload" {
			wasRunning[p] = running[p]
		}
		if st.Op == "load-if-was-running" {
			if !wasRunning[p] {
				snapshot()
				continue
			}
			st.Op = "load"
		}
		switch st.Op {
		case "lines":
			for _, l := range st.Lines {
				e.feed(l.File, l.Text)
			}
			if late := e.quiesce(15 * time.Second); late != nil {
				res.fail = vstat.Failf("lines-not-processed", "step %d: programs %v did not process the lines they were sent", si, late)
				return res
			}
		case "gc":
			// a GC pass (in every run of the history, also the alone ones): data
			// marked `del ... after 1ms` are several milliseconds old by now
			time.Sleep(4 * time.Millisecond)
			if err := e.store.Gc(); err != nil {
				res.fail = vstat.Failf("gc-error", "step %d: %v", si, err)
				return res
			}
		case "unload":
			if (only >= 0 && p != only) || !running[p] {
				break
			}
			e.r.UnloadProgram(name(p))
			running[p] = false
			e.markRunning(name(p), false)
		case "load":
			if only >= 0 && p != only {
				break
			}
			// the permitted refusal: a name already in the store with another kind
			conflict := ""
			_ = e.store.Range(func(m *metrics.Metric) error {
				if k, ok := kinds[p][m.Name]; ok && k != m.Kind && m.Program != name(p) {
					conflict = fmt.Sprintf("%s is %v in %s and %v here", m.Name, m.Kind, m.Program, k)
				}
				return nil
			})
			// scrapes go on while the program is loaded. No line is in flight, so the
			// series of every OTHER program must be the same in each of them.
			others := func(text string) string {
				var ls []string
				for _, l := range strings.Split(text, "\n") {
					if strings.HasPrefix(l, "#") || l == "" || strings.Contains(l, `prog="`+name(p)+`"`) {
						continue
					}
					ls = append(ls, l)
				}
				sort.Strings(ls)
				return strings.Join(ls, "\n")
			}
			_, before, gerr0, _ := sc.Gather()
			stop := make(chan struct{})
			diffs := make(chan string, 4)
			var swg sync.WaitGroup
			for g := 0; g < 2 && gerr0 == nil; g++ {
				swg.Add(1)
				go func() {
					defer swg.Done()
					for {
						select {
						case <-stop:
							return
						default:
						}
						_, text, gerr, _ := sc.Gather()
						if gerr != nil {
							select {
							case diffs <- "gather error: " + gerr.Error():
							default:
							}
							return
						}
						if a, b := others(text), others(before); a != b {
							select {
							case diffs <- firstDiffLine(a, b):
							default:
							}
							return
						}
					}
				}()
			}
			err := e.r.CompileAndRun(name(p), strings.NewReader(c.source(p)))
			close(stop)
			swg.Wait()
			select {
			case d := <-diffs:
				res.fail = vstat.Failf("other-programs-export-changes-during-load", "step %d: while program %d was being loaded a concurrent scrape showed other programs' series changed: %s", si, p, d)
				return res
			default:
			}
			if err != nil && !running[p] && !res.loadedOK[p] {
				// a program that has never been loaded and was not loaded now either
				// has nothing in the store
				left := ""
				_ = e.store.Range(func(m *metrics.Metric) error {
					if m.Program == name(p) {
						left = m.Name
					}
					return nil
				})
				if left != "" {
					res.fail = vstat.Failf("failed-load-left-metrics-behind", "step %d: loading program %d failed (%v), yet its metric %s is in the store", si, p, err, left)
					return res
				}
			}
			_, selfClash := kinds[p]["\x00selfclash"]
			switch {
			case !compiles[p]:
				if err == nil {
					res.fail = vstat.Failf("uncompilable-program-loaded", "step %d: program %d does not compile on its own but CompileAndRun returned nil", si, p)
					return res
				}
			case selfClash:
				// the program exports one name with two kinds: it cannot be registered
				if err == nil {
					res.fail = vstat.Failf("self-clashing-program-loaded", "step %d: program %d exports one name with two kinds but CompileAndRun returned nil", si, p)
					return res
				}
				res.refused[p] = "exports one name with two kinds"
			case err != nil && conflict != "":
				res.refused[p] = conflict
			case err != nil:
				res.fail = vstat.Failf("load-refused-without-kind-conflict", "step %d: program %d compiles on its own and no other program holds one of its names with another kind, yet loading it next to the others failed: %v", si, p, err)
				return res
			default:
				if !running[p] {
					running[p] = true
					e.markRunning(name(p), true)
				}
				res.loadedOK[p] = true
			}
		}
		snapshot()
	}
	_, text, gerr, perr := sc.Gather()
	res.scrapeOK = gerr == nil && perr == nil
	if !res.scrapeOK && only < 0 {
		res.fail = vstat.Failf("scrape-fails", "gathering the exporter with all programs loaded fails: %v %v", gerr, perr)
	}
	for i := 0; i < c.n(); i++ {
		var ls []string
		for _, l := range strings.Split(text, "\n") {
			if strings.HasPrefix(l, "#") || !strings.Contains(l, `prog="`+name(i)+`"`) {
				continue
			}
			ls = append(ls, l)
		}
		sort.Strings(ls)
		res.scrape[i] = ls
	}
	if !e.close() {
		res.fail = vstat.Failf("runtime-does-not-stop", "runtime did not shut down within 20 s")
	}
	return res
}

type c06Info struct {
	nLoadedOK    int
	sharedLoaded bool // two programs that were loaded at the same time export a common name
	bothUpdated  bool
	refusals     int
	uncompilable int
}

func runC06(c c06Case) (*vstat.Failure, c06Info) {
	vstat.Begin(c)
	var info c06Info
	f := vstat.Catch(func() *vstat.Failure {
		tag := uniq()
		n := c.n()
		compiles := make([]bool, n)
		kinds := make([]map[string]metrics.Kind, n)
		for i := 0; i < n; i++ {
			kinds[i] = map[string]metrics.Kind{}
			obj, err := hx.Compile(fmt.Sprintf("p%d_%s.mtail", i, tag), c.source(i))
			if err == nil && obj != nil {
				compiles[i] = true
				for _, m := range obj.Metrics {
					if !m.Hidden {
						if k, ok := kinds[i][m.Name]; ok && k != m.Kind {
							kinds[i]["\x00selfclash"] = m.Kind
						}
						kinds[i][m.Name] = m.Kind
					}
				}
			} else {
				info.uncompilable++
			}
		}
		all := c06Exec(&c, tag, -1, compiles, kinds)
		if all.fail != nil && all.fail.Sig != "scrape-fails" {
			return all.fail
		}
		info.refusals = len(all.refused)
		info.nLoadedOK = len(all.loadedOK)
		// classification: shared names between programs loaded together
		for i := 0; i < n; i++ {
			for j := i + 1; j < n; j++ {
				if !all.loadedOK[i] || !all.loadedOK[j] {
					continue
				}
				for nm := range kinds[i] {
					if _, ok := kinds[j][nm]; ok {
						info.sharedLoaded = true
					}
				}
			}
		}
		for i := 0; i < n; i++ {
			if !compiles[i] || !all.loadedOK[i] {
				continue
			}
			if _, r := all.refused[i]; r {
				continue // the permitted interaction; the others must still be unaffected
			}
			alone := c06Exec(&c, tag, i, compiles, kinds)
			if alone.fail != nil {
				if alone.fail.Sig == "load-refused-without-kind-conflict" || alone.fail.Sig == "lines-not-processed" {
					return alone.fail
				}
				continue
			}
			if len(alone.refused) > 0 {
				continue
			}
			changed := 0
			for si := range c.Steps {
				if si >= len(all.dumps) || si >= len(alone.dumps) {
					break
				}
				if all.dumps[si][i] != alone.dumps[si][i] {
					return vstat.Failf("metrics-differ-from-alone-run", "after step %d (%s): the metrics of program %d next to the other programs differ from running it alone on the same lines: %s\n--- program %d\n%s", si, c.Steps[si].Op, i, firstDiffLine(all.dumps[si][i], alone.dumps[si][i]), i, c.source(i))
				}
				if si > 0 && all.dumps[si][i] != all.dumps[si-1][i] && c.Steps[si].Op == "lines" {
					changed++
				}
			}
			if changed > 0 && info.sharedLoaded {
				info.bothUpdated = true
			}
			if alone.scrapeOK {
				if !all.scrapeOK {
					return vstat.Failf("scrape-fails-only-together", "every program scrapes on its own, the combination does not: %v", all.fail)
				}
				if a, b := strings.Join(all.scrape[i], "\n"), strings.Join(alone.scrape[i], "\n"); a != b {
					return vstat.Failf("export-differs-from-alone-run", "the series exported for program %d differ from running it alone: %s", i, firstDiffLine(a, b))
				}
			}
		}
		return nil
	})
	return f, info
}

func c06RunRaw(raw json.RawMessage) *vstat.Failure {
	c, err := vstat.JSON[c06Case](raw)
	if err != nil || len(c.Progs) == 0 {
		return vstat.Failf("bad-replay", "%v", err)
	}
	f, _ := runC06(c)
	return f
}

func TestC06(t *testing.T) {
	st := vstat.New("C06", "sets of 1-4 programs from the typed grammar G (metric names m0..m4 and a shared pool of exported names, so names collide across programs with equal or different kinds, value types and keys; some programs broken, some raising runtime errors; optionally a hand-written pair: one that marks its label values for expiry next to one that keeps the same label values, two byte-identical copies of one file, or one that sets its clock from the log next to one that branches on the clock it sees) x a history of load/unload events and line batches instantiated from the programs' own patterns; metamorphic oracle: for every program that was never refused, its metrics after EVERY step and its exported series equal those of the same history with the other programs' events removed; a load may fail only if the source does not compile on its own or another program holds one of its names with another kind. non-trivial = two programs loaded together share an exported name and lines changed the program's metrics; distinct by case")
	st.Assumptions = []string{"which names are 'already used' is read from the store at load time (metrics of unloaded programs count)", "HELP text of a shared family is not compared (it names the first declaring program)"}
	st.Run(t, c06RunRaw, func() {
		feats := gen.AllFeatures()
		feats.PinTypes, feats.OnePatternPerCond, feats.NoMixedMetricReads, feats.NoRecursiveDecorators = true, true, true, true
		feats.OtherwiseInElse = false
		feats.MaxStmts = 6
		feats.Text = false
		feats.ShortExpiry = true
		feats.Hidden = false // hidden metrics never reach the store; here every declaration should be able to collide
		st.Check(t, func(rt *rapid.T) {
			var c c06Case
			defer st.Guard(func() any { return c })
			np := rapid.IntRange(1, 4).Draw(rt, "nprogs")
			var gs []*gen.G
			kindTable := map[string]string{}
			for i := 0; i < np; i++ {
				g := gen.GenProgram(rt, feats)
				// make same-kind collisions common: most programs take, for a name an
				// earlier program declares, that program's kind
				if rapid.IntRange(0, 3).Draw(rt, "align") > 0 {
					for _, m := range g.P.Metrics {
						if k, ok := kindTable[m.Exported()]; ok && k != "text" && m.Kind != "text" && k != "histogram" && m.Kind != "histogram" {
							m.Kind = k
						}
					}
				}
				for _, m := range g.P.Metrics {
					if _, ok := kindTable[m.Exported()]; !ok {
						kindTable[m.Exported()] = m.Kind
					}
				}
				// compact the names (unused declarations were pruned) so that every
				// program declares m0, most declare m1, ...: names collide across programs
				c06Compact(g.P)
				// now and then a declaration is hidden: it takes no part in any clash
				for _, m := range g.P.Metrics {
					if rapid.IntRange(0, 7).Draw(rt, "hide") == 0 {
						m.Hidden = true
					}
				}
				gs = append(gs, g)
				c.Progs = append(c.Progs, g.P)
				c.Broken = append(c.Broken, rapid.IntRange(0, 14).Draw(rt, "broken") == 0)
			}
			extraLines := false
			extraText := []string{"word a", "word b", "word c"}
			switch rapid.IntRange(0, 11).Draw(rt, "extraset") {
			case 0, 1:
				// the same file twice under two names (cp a.mtail b.mtail): each copy
				// has metrics of its own
				src := "counter copy_lines by w\ngauge copy_last\n/^word (?P<w>\\w+)$/ {\n  copy_lines[$w]++\n  copy_last = len($w)\n}\n"
				c.Extra = []string{src, src}
				extraLines = true
				st.Class("with-byte-identical-copies")
			case 2, 3:
				// one program takes its clock from the log, the other never sets it and
				// branches on the time it sees (the wall clock, decades later)
				c.Extra = []string{
					"gauge log_time\n/^at (?P<t>\\d+) / {\n  settime($t)\n  log_time = timestamp()\n}\n",
					"counter recent\ncounter long_ago\n/^at / {\n  timestamp() > 1500000000 {\n    recent++\n  } else {\n    long_ago++\n  }\n}\n",
				}
				extraText = []string{"at 86400 x", "at 1000000 y", "at 31536000 z"}
				extraLines = true
				st.Class("with-clock-setting-and-clock-reading-pair")
			case 6:
				// a program that exports one name with two kinds (it cannot be loaded,
				// and must leave nothing behind) before one that uses the name properly
				c.Extra = []string{
					"counter inflight\ngauge inflight_now as \"inflight\"\n/^word (?P<w>\\w+)$/ {\n  inflight++\n  inflight_now = len($w)\n}\n",
					"gauge inflight\ncounter q_lines\n/^word (?P<w>\\w+)$/ {\n  inflight = len($w)\n  q_lines++\n}\n",
				}
				extraLines = true
				st.Class("with-a-program-exporting-one-name-with-two-kinds")
			case 4, 5:
				// a name one program exports and another keeps hidden, with another
				// kind: the hidden one never reaches the store, so they do not clash
				c.Extra = []string{
					"counter shared_word_len\n/^word (?P<w>\\w+)$/ {\n  shared_word_len += len($w)\n}\n",
					"hidden gauge shared_word_len\ncounter seen_len\n/^word (?P<w>\\w+)$/ {\n  shared_word_len = len($w)\n  seen_len += shared_word_len\n}\n",
				}
				extraLines = true
				st.Class("with-exported-and-hidden-metric-of-one-name")
			}
			if c.Extra == nil && rapid.IntRange(0, 3).Draw(rt, "extrapair") == 0 {
				// a pair with several same-keyed metrics: one program marks every label
				// value it touches for expiry, the other keeps the same label values
				var exp, keep strings.Builder
				for k := 0; k < 4; k++ {
					fmt.Fprintf(&exp, "counter e%d by w\n", k)
					fmt.Fprintf(&keep, "counter k%d by w\n", k)
				}
				exp.WriteString("/^word (?P<w>\\w+)$/ {\n")
				keep.WriteString("/^word (?P<w>\\w+)$/ {\n")
				for k := 0; k < 4; k++ {
					fmt.Fprintf(&exp, "  e%d[$w]++\n  del e%d[$w] after 1ms\n", k, k)
					fmt.Fprintf(&keep, "  k%d[$w]++\n", k)
				}
				exp.WriteString("}\n")
				keep.WriteString("}\n")
				c.Extra = []string{exp.String(), keep.String()}
				extraLines = true
				st.Class("with-expiring-and-keeping-pair")
			}
			for i := 0; i < c.n(); i++ {
				c.Sources = append(c.Sources, c.source(i))
			}
			ns := rapid.IntRange(np+1, vstat.Scale(10, 14)).Draw(rt, "nsteps")
			files := []string{"/var/log/a.log", "b.log"}
			for s := 0; s < ns; s++ {
				op := "lines"
				if s < np {
					op = "load"
				} else {
					op = rapid.SampledFrom([]string{"lines", "lines", "lines", "load", "load", "unload", "gc", "gc"}).Draw(rt, "op")
				}
				stp := c06Step{Op: op, Prog: rapid.IntRange(0, c.n()-1).Draw(rt, "prog")}
				if s < np {
					stp.Prog = (s + rapid.IntRange(0, 1).Draw(rt, "order")) % np
				}
				if op == "lines" {
					nl := rapid.IntRange(1, 5).Draw(rt, "nl")
					for k := 0; k < nl; k++ {
						g := gs[rapid.IntRange(0, np-1).Draw(rt, "lineprog")]
						stp.Lines = append(stp.Lines, c06Line{File: files[rapid.IntRange(0, 1).Draw(rt, "file")], Text: g.GenLine()})
					}
					if extraLines {
						ne := rapid.IntRange(1, 3).Draw(rt, "nextra")
						for k := 0; k < ne; k++ {
							stp.Lines = append(stp.Lines, c06Line{File: "b.log", Text: rapid.SampledFrom(extraText).Draw(rt, "word")})
						}
					}
				}
				c.Steps = append(c.Steps, stp)
				if s == np-1 {
					for x := range c.Extra {
						c.Steps = append(c.Steps, c06Step{Op: "load", Prog: np + x})
					}
				}
			}
			c.Storm = rapid.SampledFrom([]int{0, 2, 4}).Draw(rt, "storm")
			st.SkipShrink(rt, c)
			f, info := runC06(c)
			st.Eval()
			st.Class(fmt.Sprintf("programs-%d", np))
			st.Class(fmt.Sprintf("programs-loaded-%d", info.nLoadedOK))
			if info.refusals > 0 {
				st.Class("kind-conflict-refusal")
			}
			if info.uncompilable > 0 {
				st.Class("has-uncompilable-program")
			}
			if info.sharedLoaded {
				st.Class("shared-name-loaded-together")
			}
			if info.bothUpdated {
				b, _ := json.Marshal(c)
				st.NonTrivial(string(b), c)
			}
			st.Report(rt, f, c)
		})
	})
}

// c06Compact renames the program's metrics to m0, m1, ... in declaration order.
func c06Compact(p *gen.Program) {
	ren := map[string]string{}
	for i, m := range p.Metrics {
		ren[m.Name] = fmt.Sprintf("m%d", i)
	}
	for _, m := range p.Metrics {
		m.Name = ren[m.Name]
	}
	var expr func(e *gen.Expr)
	expr = func(e *gen.Expr) {
		if e == nil {
			return
		}
		if e.Op == "mread" {
			if n, ok := ren[e.Name]; ok {
				e.Name = n
			}
		}
		for _, a := range e.Args {
			expr(a)
		}
	}
	var stmts func(ss []*gen.Stmt)
	stmts = func(ss []*gen.Stmt) {
		for _, s := range ss {
			if n, ok := ren[s.Metric]; ok && s.Metric != "" {
				s.Metric = n
			}
			expr(s.E)
			for _, k := range s.Keys {
				expr(k)
			}
			stmts(s.Then)
			stmts(s.Else)
		}
	}
	stmts(p.Stmts)
	for _, d := range p.Decos {
		stmts(d.Body)
	}
}
