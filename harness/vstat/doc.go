package vstat
