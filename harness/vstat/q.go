package vstat

import (
	"encoding/json"
	"strconv"
)

// Q is a byte string that survives JSON: it is written in Go escape syntax
// (so invalid UTF-8, NUL and control bytes are kept exactly) inside a JSON
// string.
type Q string

func (q Q) MarshalJSON() ([]byte, error) {
	s := strconv.Quote(string(q))
	return json.Marshal(s[1 : len(s)-1])
}

func (q *Q) UnmarshalJSON(b []byte) error {
	var s string
	if err := json.Unmarshal(b, &s); err != nil {
		return err
	}
	u, err := strconv.Unquote(`"` + s + `"`)
	if err != nil {
		return err
	}
	*q = Q(u)
	return nil
}

// Qs converts a string slice.
func Qs(ss []string) []Q {
	r := make([]Q, len(ss))
	for i, s := range ss {
		r[i] = Q(s)
	}
	return r
}

// Strs converts back.
func Strs(qs []Q) []string {
	r := make([]string, len(qs))
	for i, s := range qs {
		r[i] = string(s)
	}
	return r
}
