// Package vstat is the bookkeeping shared by every check: counting generated
// cases, classifying them, de-duplicating the non-trivial ones, recording
// failures with a root-cause signature and a self-contained replay value, and
// handling the committed list of known findings.
//
// One test process checks one property. The driver (/verif/check) passes
//
//	VERIF_STATS_OUT   file the run's statistics are written to (JSON)
//	VERIF_TIER        quick | thorough
//	VERIF_SHARD       shard number (0-based), VERIF_SHARDS shard count
//	VERIF_REPLAY      path of a replay file: run only that case
//	VERIF_KNOWN       path of known_findings.json
//	VERIF_SCRATCH     per-run scratch directory
package vstat

import (
	"encoding/json"
	"fmt"
	"hash/fnv"
	"os"
	"regexp"
	"runtime/debug"
	"sort"
	"strconv"
	"strings"
	"sync"
	"testing"
	"time"

	"pgregory.net/rapid"
)

// Failure is what an oracle returns when a case breaks the property.
type Failure struct {
	Sig string // root-cause signature, stable across inputs with the same cause
	Msg string // human readable: expected vs got
}

func (f *Failure) Error() string { return f.Sig + ": " + f.Msg }

// Failf builds a Failure.
func Failf(sig, format string, args ...any) *Failure {
	return &Failure{Sig: sig, Msg: fmt.Sprintf(format, args...)}
}

// Violation is a recorded failure together with the case that produced it.
type Violation struct {
	Sig  string          `json:"sig"`
	Msg  string          `json:"msg"`
	Kind string          `json:"kind"` // search | probe-fixed | replay
	Case json.RawMessage `json:"case"`
}

// Finding is one entry of known_findings.json.
type Finding struct {
	Property string          `json:"property"`
	ID       string          `json:"id"`
	Status   string          `json:"status"` // open | fixed
	Sig      string          `json:"signature"`
	What     string          `json:"what"`
	Commit   string          `json:"commit,omitempty"`
	Probe    json.RawMessage `json:"probe"`
}

// Stats accumulates what one run covered.
type Stats struct {
	mu          sync.Mutex
	Property    string
	Rule        string
	Assumptions []string
	Exhaustive  bool

	evals                  int64
	distinctByConstruction int64
	nontrivial             map[uint64]struct{}
	classes                map[string]int64
	excluded               map[string]int64
	samples                []json.RawMessage
	violations             []Violation
	knownLive              []Finding // open findings whose probe still fails
	extra                  map[string]any
	notes                  []string
	inconcl                []string

	last         *pending  // last failure seen inside a rapid property (the shrunk one at the end)
	firstFailure time.Time // when the first failure of this rapid.Check was seen

	findings []Finding
	live     map[string]bool // finding id -> probe fails on this tree
	liveSig  map[string]string
}

type pending struct {
	f *Failure
	c json.RawMessage
}

// New creates the statistics object for a property.
func New(property, rule string) *Stats {
	s := &Stats{
		Property:   property,
		Rule:       rule,
		nontrivial: map[uint64]struct{}{},
		classes:    map[string]int64{},
		excluded:   map[string]int64{},
		extra:      map[string]any{},
		live:       map[string]bool{},
		liveSig:    map[string]string{},
	}
	s.loadFindings()
	return s
}

func (s *Stats) loadFindings() {
	p := os.Getenv("VERIF_KNOWN")
	if p == "" {
		p = "/verif/known_findings.json"
	}
	b, err := os.ReadFile(p)
	if err != nil {
		return
	}
	var all []Finding
	if err := json.Unmarshal(b, &all); err != nil {
		panic("known findings file does not parse: " + err.Error())
	}
	for _, f := range all {
		if f.Property == s.Property {
			s.findings = append(s.findings, f)
		}
	}
}

// Tier returns quick or thorough.
func Tier() string {
	if t := os.Getenv("VERIF_TIER"); t != "" {
		return t
	}
	return "quick"
}

// Thorough reports whether this is the thorough tier.
func Thorough() bool { return Tier() == "thorough" }

// Shard returns (shard index, shard count).
func Shard() (int, int) {
	i, _ := strconv.Atoi(os.Getenv("VERIF_SHARD"))
	n, _ := strconv.Atoi(os.Getenv("VERIF_SHARDS"))
	if n <= 0 {
		n = 1
	}
	return i, n
}

// Scratch returns the per-run scratch directory.
func Scratch() string {
	d := os.Getenv("VERIF_SCRATCH")
	if d == "" {
		d = "/verif/.scratch/manual"
	}
	_ = os.MkdirAll(d, 0o755)
	return d
}

// Scale returns q in the quick tier and th in the thorough tier.
func Scale(q, th int) int {
	if Thorough() {
		return th
	}
	return q
}

// Begin records the case that is about to run in the scratch directory. A
// crash of the code under test in a goroutine of its own takes the whole test
// process down; the driver then reports the recorded case as the failing one.
func Begin(c any) {
	d := os.Getenv("VERIF_SCRATCH")
	if d == "" {
		return
	}
	b, err := json.Marshal(c)
	if err != nil {
		return
	}
	_ = os.WriteFile(d+"/current-case.json", b, 0o644)
}

// Eval counts one executed case.
func (s *Stats) Eval() {
	s.mu.Lock()
	s.evals++
	s.mu.Unlock()
}

// Evals counts n executed cases.
func (s *Stats) Evals(n int) {
	s.mu.Lock()
	s.evals += int64(n)
	s.mu.Unlock()
}

// Class bumps a class counter.
func (s *Stats) Class(name string) {
	s.mu.Lock()
	s.classes[name]++
	s.mu.Unlock()
}

// ClassN bumps a class counter by n.
func (s *Stats) ClassN(name string, n int) {
	s.mu.Lock()
	s.classes[name] += int64(n)
	s.mu.Unlock()
}

// Excluded counts a case (or a generator choice) left out because of an open
// known finding.
func (s *Stats) Excluded(id string) {
	s.mu.Lock()
	s.excluded[id]++
	s.mu.Unlock()
}

// Note attaches free text to the evidence.
func (s *Stats) Note(format string, args ...any) {
	s.mu.Lock()
	s.notes = append(s.notes, fmt.Sprintf(format, args...))
	s.mu.Unlock()
}

// Inconclusive marks the run as not decided (harness-level problem, vacuous
// generator, deadline on a loaded machine): exit status 2, never a violation.
func (s *Stats) Inconclusive(t testing.TB, format string, args ...any) {
	m := fmt.Sprintf(format, args...)
	s.mu.Lock()
	s.inconcl = append(s.inconcl, m)
	s.mu.Unlock()
	t.Errorf("INCONCLUSIVE: %s", m)
}

// Extra attaches a key to the evidence coverage object.
func (s *Stats) Extra(k string, v any) {
	s.mu.Lock()
	s.extra[k] = v
	s.mu.Unlock()
}

func hashKey(key string) uint64 {
	h := fnv.New64a()
	h.Write([]byte(key))
	return h.Sum64()
}

// NonTrivial records a non-trivial case identified by key (its canonical
// text); c is kept as a sample now and then. Returns true if the case is new.
func (s *Stats) NonTrivial(key string, c any) bool {
	h := hashKey(key)
	s.mu.Lock()
	defer s.mu.Unlock()
	if _, ok := s.nontrivial[h]; ok {
		return false
	}
	s.nontrivial[h] = struct{}{}
	n := len(s.nontrivial)
	if c != nil && (n == 1 || n == 7 || n == 50 || n == 300 || n == 2000 || n == 15000) {
		if b, err := json.Marshal(c); err == nil {
			if len(b) > 6000 {
				b, _ = json.Marshal(map[string]any{"truncated_case_json_prefix": string(b[:6000])})
			}
			s.samples = append(s.samples, b)
		}
	}
	return true
}

// NonTrivialDistinct counts n non-trivial cases that are distinct by
// construction (exhaustive enumerations partitioned over the shards).
func (s *Stats) NonTrivialDistinct(n int, sample any) {
	s.mu.Lock()
	defer s.mu.Unlock()
	s.distinctByConstruction += int64(n)
	if sample != nil && len(s.samples) < 8 && (s.distinctByConstruction == int64(n) || s.distinctByConstruction%4099 < int64(n)) {
		if b, err := json.Marshal(sample); err == nil && len(b) < 6000 {
			s.samples = append(s.samples, b)
		}
	}
}

// LiveFor returns the id of the live open finding whose signature matches sig
// ("" if none): used by the native fuzz targets, which handle failures outside
// rapid.
func (s *Stats) LiveFor(sig string) string { return s.liveFindingFor(sig) }

// IsLive reports whether the open known finding id is present on this tree
// (its probe failed with its signature). Generators use it to exclude the
// finding's input class by construction.
func (s *Stats) IsLive(id string) bool {
	s.mu.Lock()
	defer s.mu.Unlock()
	return s.live[id]
}

// liveFindingFor returns the id of a live open finding with this signature.
func (s *Stats) liveFindingFor(sig string) string {
	for id, sg := range s.liveSig {
		if s.live[id] && sigMatches(sg, sig) {
			return id
		}
	}
	return ""
}

// sigMatches compares a finding's signature with a failure's: exact, or a
// regular expression when the finding's signature starts with "re:".
func sigMatches(findingSig, sig string) bool {
	if strings.HasPrefix(findingSig, "re:") {
		re, err := regexp.Compile(findingSig[3:])
		return err == nil && re.MatchString(sig)
	}
	return findingSig == sig
}

// Probes runs the probe of every listed finding of this property through run
// (the library-free oracle entry point: decode the case, return its failure).
func (s *Stats) Probes(t testing.TB, run func(raw json.RawMessage) *Failure) {
	for _, f := range s.findings {
		if len(f.Probe) == 0 || string(f.Probe) == "null" {
			continue
		}
		Begin(f.Probe) // a probe that takes the process down is then reported by the driver
		fail := safeRun(run, f.Probe)
		switch f.Status {
		case "open":
			if fail != nil && sigMatches(f.Sig, fail.Sig) {
				s.mu.Lock()
				s.live[f.ID] = true
				s.liveSig[f.ID] = f.Sig
				s.knownLive = append(s.knownLive, f)
				s.mu.Unlock()
			} else if fail != nil {
				// the probe fails in a different way: that is not the listed finding
				s.addViolation(Violation{Sig: fail.Sig, Msg: "probe of " + f.ID + " failed with another signature: " + fail.Msg, Kind: "probe-open", Case: f.Probe})
				t.Errorf("probe %s: %v", f.ID, fail)
			}
		case "fixed":
			if fail != nil {
				s.addViolation(Violation{Sig: fail.Sig, Msg: "regression of fixed finding " + f.ID + ": " + fail.Msg, Kind: "probe-fixed", Case: f.Probe})
				t.Errorf("fixed finding %s is back: %v", f.ID, fail)
			}
		}
	}
}

func safeRun(run func(raw json.RawMessage) *Failure, raw json.RawMessage) (f *Failure) {
	defer func() {
		if r := recover(); r != nil {
			f = Failf("panic", "%v\n%s", r, debug.Stack())
		}
	}()
	return run(raw)
}

func (s *Stats) addViolation(v Violation) {
	s.mu.Lock()
	defer s.mu.Unlock()
	for _, o := range s.violations {
		if o.Sig == v.Sig && o.Kind == v.Kind && string(o.Case) == string(v.Case) {
			return
		}
	}
	s.violations = append(s.violations, v)
}

// Violate records a violation found outside a rapid property (exhaustive
// enumerations, replay).
func (s *Stats) Violate(t testing.TB, f *Failure, c any, kind string) {
	if id := s.liveFindingFor(f.Sig); id != "" {
		s.Excluded(id)
		return
	}
	b, _ := json.Marshal(c)
	s.addViolation(Violation{Sig: f.Sig, Msg: f.Msg, Kind: kind, Case: b})
	t.Errorf("VIOLATION %s: %v", s.Property, f)
}

// Report is called inside a rapid property with the oracle's verdict.
// nil: nothing. A failure with the signature of a live open finding is counted
// as excluded and the case skipped, so the search goes on behind it; any other
// failure fails the case (rapid then shrinks it).
func (s *Stats) Report(t *rapid.T, f *Failure, c any) {
	if f == nil {
		return
	}
	if id := s.liveFindingFor(f.Sig); id != "" {
		s.Excluded(id)
		t.Skipf("known finding %s", id)
	}
	b, _ := json.Marshal(c)
	s.mu.Lock()
	first := s.last == nil
	if first {
		s.firstFailure = time.Now()
	}
	s.last = &pending{f: f, c: b}
	s.mu.Unlock()
	if first {
		// record the (not yet shrunk) failure at once: if shrinking is slow and the
		// worker is stopped at its time budget, the violation is not lost
		s.addViolation(Violation{Sig: f.Sig, Msg: f.Msg, Kind: "search-unshrunk", Case: b})
		s.Flush()
		s.mu.Lock()
		var keep []Violation
		for _, v := range s.violations {
			if v.Kind != "search-unshrunk" {
				keep = append(keep, v)
			}
		}
		s.violations = keep
		s.mu.Unlock()
	}
	t.Fatalf("%v", f)
}

// ShrinkBudget is how long rapid may keep executing shrink candidates of a
// slow property after the first failure before SkipShrink cuts it short.
var ShrinkBudget = 25 * time.Second

// SkipShrink is called by slow properties before they execute a case. Once a
// failure has been on record for longer than ShrinkBudget, every candidate
// other than the best failing case so far is skipped, so that shrinking ends
// with that case instead of running into the check's time budget (a failing
// case of a tailer or runtime property can cost seconds: it waits for lines
// that never arrive).
func (s *Stats) SkipShrink(t *rapid.T, c any) {
	s.mu.Lock()
	l, since := s.last, s.firstFailure
	s.mu.Unlock()
	if l == nil || since.IsZero() || time.Since(since) < ShrinkBudget {
		return
	}
	b, _ := json.Marshal(c)
	if string(b) != string(l.c) {
		t.Skip("shrink budget used up")
	}
	// the best failing case again (many shrink candidates decode to the same
	// values): its verdict is on record, do not pay for it once more
	t.Fatalf("%v", l.f)
}

// Check runs rapid.Check around prop, converts a panic of the code under test
// into a recorded failure, and after shrinking records the minimal failing case
// as a violation.
func (s *Stats) Check(t *testing.T, prop func(t *rapid.T)) {
	s.mu.Lock()
	s.last = nil
	s.firstFailure = time.Time{}
	s.mu.Unlock()
	failedBefore := t.Failed() // a failing probe or saved replay, recorded already
	// rapid ends a failing test with FailNow (Goexit), so promote the last
	// recorded failure (the shrunk one) in a deferred function.
	defer func() {
		if !t.Failed() {
			return
		}
		s.mu.Lock()
		l := s.last
		s.mu.Unlock()
		if l != nil {
			s.addViolation(Violation{Sig: l.f.Sig, Msg: l.f.Msg, Kind: "search", Case: l.c})
		} else if !failedBefore {
			s.addViolation(Violation{Sig: "unrecorded", Msg: "rapid reported a failure that did not go through Report (see log)", Kind: "search", Case: json.RawMessage("null")})
		}
	}()
	rapid.Check(t, prop)
}

// Guard is deferred at the top of a rapid property body: a panic that is not
// rapid's own control flow is recorded as a failure of the case given by cf.
func (s *Stats) Guard(cf func() any) {
	r := recover()
	if r == nil {
		return
	}
	tn := fmt.Sprintf("%T", r)
	if strings.HasPrefix(tn, "rapid.") {
		panic(r)
	}
	var c any
	if cf != nil {
		c = cf()
	}
	b, _ := json.Marshal(c)
	st := string(debug.Stack())
	s.mu.Lock()
	s.last = &pending{f: Failf("panic", "%v\n%s", r, st), c: b}
	s.mu.Unlock()
	panic(r)
}

// Replay handles VERIF_REPLAY: if set, run only that file through run and
// return true.
func (s *Stats) Replay(t *testing.T, run func(raw json.RawMessage) *Failure) bool {
	p := os.Getenv("VERIF_REPLAY")
	if p == "" {
		return false
	}
	b, err := os.ReadFile(p)
	if err != nil {
		t.Fatalf("replay: %v", err)
	}
	var v Violation
	if err := json.Unmarshal(b, &v); err != nil || len(v.Case) == 0 {
		v.Case = b
	}
	s.Eval()
	if f := safeRun(run, v.Case); f != nil {
		s.addViolation(Violation{Sig: f.Sig, Msg: f.Msg, Kind: "replay", Case: v.Case})
		t.Errorf("replay fails: %v", f)
	}
	return true
}

// ReplayDir runs every saved replay file of this property (the seconds-long
// replay tier). A saved case that still fails is a violation unless it is a
// live open finding.
func (s *Stats) ReplayDir(t *testing.T, run func(raw json.RawMessage) *Failure) {
	dir := "/verif/replays/" + s.Property
	ents, err := os.ReadDir(dir)
	if err != nil {
		return
	}
	for _, e := range ents {
		if !strings.HasSuffix(e.Name(), ".json") {
			continue
		}
		b, err := os.ReadFile(dir + "/" + e.Name())
		if err != nil {
			continue
		}
		var v Violation
		if err := json.Unmarshal(b, &v); err != nil || len(v.Case) == 0 {
			continue
		}
		s.Eval()
		s.Class("saved-replay")
		if f := safeRun(run, v.Case); f != nil {
			if id := s.liveFindingFor(f.Sig); id != "" {
				s.Excluded(id)
				continue
			}
			s.addViolation(Violation{Sig: f.Sig, Msg: f.Msg, Kind: "saved-replay:" + e.Name(), Case: v.Case})
			t.Errorf("saved replay %s fails: %v", e.Name(), f)
		}
	}
}

type out struct {
	Property    string            `json:"property"`
	Rule        string            `json:"rule"`
	Assumptions []string          `json:"assumptions"`
	Exhaustive  bool              `json:"exhaustive"`
	Evals       int64             `json:"evaluations"`
	NonTrivial  []uint64          `json:"nontrivial_hashes"`
	Distinct    int64             `json:"nontrivial_distinct_by_construction"`
	Classes     map[string]int64  `json:"classes"`
	Excluded    map[string]int64  `json:"excluded"`
	Samples     []json.RawMessage `json:"samples"`
	Violations  []Violation       `json:"violations"`
	KnownLive   []Finding         `json:"known_live"`
	Extra       map[string]any    `json:"extra"`
	Notes       []string          `json:"notes"`
	Inconcl     []string          `json:"inconclusive"`
}

// Flush writes the statistics file. Deferred by every test.
func (s *Stats) Flush() {
	p := os.Getenv("VERIF_STATS_OUT")
	if p == "" {
		return
	}
	s.mu.Lock()
	defer s.mu.Unlock()
	o := out{
		Property: s.Property, Rule: s.Rule, Assumptions: s.Assumptions, Exhaustive: s.Exhaustive,
		Evals: s.evals, Distinct: s.distinctByConstruction, Classes: s.classes, Excluded: s.excluded, Samples: s.samples,
		Violations: s.violations, KnownLive: s.knownLive, Extra: s.extra, Notes: s.notes, Inconcl: s.inconcl,
	}
	for h := range s.nontrivial {
		o.NonTrivial = append(o.NonTrivial, h)
	}
	sort.Slice(o.NonTrivial, func(i, j int) bool { return o.NonTrivial[i] < o.NonTrivial[j] })
	b, err := json.Marshal(o)
	if err != nil {
		panic(err)
	}
	if err := os.WriteFile(p+".tmp", b, 0o644); err != nil {
		panic(err)
	}
	_ = os.Rename(p+".tmp", p)
}

// Run is the common skeleton of a check:
//
//	replay mode  -> run that one case
//	otherwise    -> probes of known findings, saved replays, then search()
func (s *Stats) Run(t *testing.T, runCase func(raw json.RawMessage) *Failure, search func()) {
	defer s.Flush()
	if s.Replay(t, runCase) {
		return
	}
	s.Probes(t, runCase)
	s.ReplayDir(t, runCase)
	search()
}

// JSON is a small helper to decode a case.
func JSON[T any](raw json.RawMessage) (T, error) {
	var v T
	err := json.Unmarshal(raw, &v)
	return v, err
}

// Catch runs an oracle and turns a panic of the code under test into a
// failure with signature "panic".
// CatchBounded is Catch for code that is called synchronously and is expected
// to return at once: if f has not returned within d (a generous bound: the
// calls take microseconds), the case fails with signature "does-not-return".
// The goroutine running f is left behind; cases do not share state with it.
func CatchBounded(d time.Duration, f func() *Failure) *Failure {
	done := make(chan *Failure, 1)
	go func() { done <- Catch(f) }()
	select {
	case r := <-done:
		return r
	case <-time.After(d):
		return Failf("does-not-return", "the operations of this case did not return within %v", d)
	}
}

// Hang is what a harness helper panics with when the code under test did not
// return within its (generous) deadline; Catch turns it into a failure of its
// own kind.
type Hang struct{ Msg string }

func Catch(f func() *Failure) (res *Failure) {
	defer func() {
		if r := recover(); r != nil {
			tn := fmt.Sprintf("%T", r)
			if strings.HasPrefix(tn, "rapid.") {
				panic(r)
			}
			if h, ok := r.(Hang); ok {
				res = Failf("does-not-return", "%s", h.Msg)
				return
			}
			st := string(debug.Stack())
			if len(st) > 3000 {
				st = st[:3000]
			}
			res = Failf("panic", "%v\n%s", r, st)
		}
	}()
	return f()
}
