package probe

import (
	"fmt"
	"testing"

	"github.com/google/mtail/verif/hx"
)

func TestProbe(t *testing.T) {
	for _, src := range []string{
		"counter c by k, k\n/(\\S+) (\\S+)/ {\n  c[$1][$2]++\n}\n",
		"counter c by prog\n/(\\S+)/ {\n  c[$1]++\n}\n",
		"counter c by le\n/(\\S+)/ {\n  c[$1]++\n}\n",
	} {
		obj, err := hx.Compile("p.mtail", src)
		fmt.Println("compile err:", err)
		if err == nil {
			fmt.Println(obj.Metrics[0].Keys)
		}
	}
}
