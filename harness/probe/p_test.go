package probe

import (
	"fmt"
	"os"
	"path/filepath"
	"testing"
	"time"

	"github.com/google/mtail/verif/hx"
)

func TestProbe(t *testing.T) {
	files, _ := filepath.Glob("/repo/examples/*.mtail")
	f2, _ := filepath.Glob("/repo/internal/runtime/fuzz/*.mtail")
	f3, _ := filepath.Glob("/repo/internal/mtail/testdata/*.mtail")
	files = append(append(files, f2...), f3...)
	for _, f := range files {
		b, _ := os.ReadFile(f)
		t0 := time.Now()
		_, err := hx.Compile("p.mtail", string(b))
		d := time.Since(t0)
		if d > 5*time.Millisecond {
			fmt.Println(f, len(b), d, err != nil)
		}
	}
}
