package tio

// C19 — One-shot runs process every line once and then terminate.

import (
	"context"
	"encoding/json"
	"fmt"
	"os"
	"path/filepath"
	goruntime "runtime"
	"sort"
	"strconv"
	"strings"
	"testing"
	"time"

	"github.com/google/mtail/internal/metrics"
	"github.com/google/mtail/internal/metrics/datum"
	"github.com/google/mtail/internal/mtail"
	"github.com/google/mtail/verif/gen"
	"github.com/google/mtail/verif/hx"
	"github.com/google/mtail/verif/vstat"
	"pgregory.net/rapid"
)

type c19File struct {
	Lines     []string `json:"lines"`
	CRLF      bool     `json:"crlf,omitempty"`
	NoFinalNL bool     `json:"no_final_newline,omitempty"`
}

type c19Case struct {
	Progs      []*gen.Program `json:"progs"`
	Sources    []string       `json:"sources"`
	Broken     int            `json:"broken"` // index of a program with a syntax error appended, -1 = none
	Files      []c19File      `json:"files"`
	GoMaxProcs int            `json:"gomaxprocs,omitempty"`
	// Glob: 0 the files are named one by one; > 0 they are named by one pattern
	// (logs/*.log); 2-4 the pattern also matches an entry that cannot be tailed
	// (a symbolic link to a character device) sorting before, between or after
	// the files
	Glob int `json:"glob,omitempty"`
	// Listen: the server also has its HTTP listener, as the mtail command always
	// has (1: a TCP port on loopback, 2: a unix socket); the run ends all the same
	Listen int `json:"listen,omitempty"`
	// Wakers: 0 the server is given both poll wakers; 1 only the stream waker;
	// 2 neither (a one-shot run polls nothing)
	Wakers int `json:"wakers,omitempty"`
	// Copy: program Copy-1 is installed a second time under another file name,
	// byte for byte
	Copy int `json:"copy,omitempty"`
}

func (f c19File) bytes() string {
	if len(f.Lines) == 0 {
		return ""
	}
	nl := "\n"
	if f.CRLF {
		nl = "\r\n"
	}
	s := strings.Join(f.Lines, nl)
	if !f.NoFinalNL {
		s += nl
	}
	return s
}

// expected lines of a file (reference splitter)
func (f c19File) expected() []string {
	b := f.bytes()
	if b == "" {
		return nil
	}
	parts := strings.Split(b, "\n")
	var out []string
	for _, p := range parts[:len(parts)-1] {
		out = append(out, strings.TrimSuffix(p, "\r"))
	}
	if last := parts[len(parts)-1]; last != "" {
		out = append(out, last)
	}
	return out
}

// the witness records the order in which lines arrived: pos[file][k] = global
// position of the file's k-th line (every program sees the same order)
const c19Witness = `counter n
counter idx by f
gauge pos by f, k
/$/ {
  idx[getfilename()]++
  pos[getfilename()][idx[getfilename()]] = n
  n++
}
`

// a second fixed program whose expected result the harness computes itself
// (not through a VM): it ends in `else { stop }`, so a line that takes that
// path is followed by the end of the bytecode
const c19Stopper = `counter with_x
counter without_x
/x/ {
  with_x++
} else {
  without_x++
  stop
}
`

func runC19(c c19Case) *vstat.Failure {
	vstat.Begin(c)
	return vstat.Catch(func() *vstat.Failure { return runC19x(c) })
}

func runC19x(c c19Case) *vstat.Failure {
	tag := uniq()
	root, err := os.MkdirTemp(vstat.Scratch(), "c19-")
	must(err)
	defer os.RemoveAll(root)
	progDir, logDir := filepath.Join(root, "progs"), filepath.Join(root, "logs")
	must(os.Mkdir(progDir, 0o755))
	must(os.Mkdir(logDir, 0o755))
	wname := "0w_" + tag + ".mtail"
	must(os.WriteFile(filepath.Join(progDir, wname), []byte(c19Witness), 0o644))
	sname := "0s_" + tag + ".mtail"
	must(os.WriteFile(filepath.Join(progDir, sname), []byte(c19Stopper), 0o644))
	pname := func(i int) string { return fmt.Sprintf("p%d_%s.mtail", i, tag) }
	nprog := len(c.Progs)
	if c.Copy > 0 && c.Copy <= len(c.Progs) {
		nprog++ // the copy is program number len(c.Progs)
	}
	src := func(i int) string {
		if i >= len(c.Progs) {
			i = c.Copy - 1
		}
		s := c.Progs[i].Source()
		if i == c.Broken {
			s += "\n/unterminated {\n"
		}
		return s
	}
	compiles := true
	for i := 0; i < nprog; i++ {
		must(os.WriteFile(filepath.Join(progDir, pname(i)), []byte(src(i)), 0o644))
		if _, err := hx.Compile(pname(i), src(i)); err != nil {
			compiles = false
		}
	}
	var paths []string
	for i, f := range c.Files {
		p := filepath.Join(logDir, fmt.Sprintf("f%d.log", i))
		must(os.WriteFile(p, []byte(f.bytes()), 0o644))
		paths = append(paths, p)
	}
	patterns := paths
	if c.Glob > 0 {
		patterns = []string{filepath.Join(logDir, "*.log")}
		if c.Glob >= 2 {
			name := []string{"a.log", "f0x.log", "z.log"}[(c.Glob-2)%3]
			must(os.Symlink("/dev/null", filepath.Join(logDir, name)))
		}
	}
	if c.GoMaxProcs > 0 {
		old := goruntime.GOMAXPROCS(c.GoMaxProcs)
		defer goruntime.GOMAXPROCS(old)
	}
	store := metrics.NewStore()
	ctx, cancel := context.WithCancel(context.Background())
	defer cancel()
	type newRes struct {
		srv *mtail.Server
		err error
	}
	nch := make(chan newRes, 1)
	go func() {
		opts := []mtail.Option{mtail.ProgramPath(progDir), mtail.LogPathPatterns(patterns...), mtail.OneShot}
		switch c.Wakers {
		case 0:
			opts = append(opts, mtail.LogstreamPollWaker(newWaker()), mtail.LogPatternPollWaker(newWaker()))
		case 1:
			opts = append(opts, mtail.LogstreamPollWaker(newWaker()))
		}
		switch c.Listen {
		case 1:
			opts = append(opts, mtail.BindAddress("127.0.0.1", "0"))
		case 2:
			opts = append(opts, mtail.BindUnixSocket(filepath.Join(root, "h.sock")))
		}
		s, err := mtail.New(ctx, store, opts...)
		nch <- newRes{s, err}
	}()
	var srv *mtail.Server
	select {
	case r := <-nch:
		if !compiles {
			if r.err == nil {
				return vstat.Failf("broken-program-not-reported", "a program of the set does not compile, but starting the one-shot run returned no error")
			}
			return nil
		}
		if r.err != nil {
			return vstat.Failf("oneshot-new-error", "%v", r.err)
		}
		srv = r.srv
	case <-time.After(30 * time.Second):
		return vstat.Failf("oneshot-does-not-start", "mtail.New did not return within 30 s")
	}
	done := make(chan error, 1)
	go func() { done <- srv.Run() }()
	select {
	case err := <-done:
		if err != nil {
			return vstat.Failf("oneshot-run-error", "%v", err)
		}
	case <-time.After(30 * time.Second):
		buf := make([]byte, 1<<16)
		n := goruntime.Stack(buf, true)
		return vstat.Failf("oneshot-does-not-terminate", "the one-shot run did not return within 30 s\n%s", buf[:n])
	}

	// 1. the witness: every line of every file exactly once, in file order
	exp := make([][]string, len(c.Files))
	total := 0
	for i, f := range c.Files {
		exp[i] = f.expected()
		total += len(exp[i])
	}
	type slot struct{ file, k int }
	order := make([]slot, total)
	filled := make([]bool, total)
	var nSeen int64 = -1
	idx := map[string]int64{}
	var wf *vstat.Failure
	_ = store.Range(func(m *metrics.Metric) error {
		if m.Program != wname {
			return nil
		}
		m.RLock()
		defer m.RUnlock()
		for _, lv := range m.LabelValues {
			switch m.Name {
			case "n":
				nSeen = datum.GetInt(lv.Value)
			case "idx":
				idx[lv.Labels[0]] = datum.GetInt(lv.Value)
			case "pos":
				fi := -1
				for i, p := range paths {
					if p == lv.Labels[0] {
						fi = i
					}
				}
				k, _ := strconv.Atoi(lv.Labels[1])
				pos := int(datum.GetInt(lv.Value))
				if fi < 0 || k < 1 || k > len(exp[fi]) {
					wf = vstat.Failf("line-processed-too-often", "the witness program saw a line number %d of %s, which has %d lines", k, lv.Labels[0], len(exp[max(fi, 0)]))
					return nil
				}
				if pos < 0 || pos >= total || filled[pos] {
					wf = vstat.Failf("line-count", "global position %d recorded twice or out of range (%d lines in all files)", pos, total)
					return nil
				}
				filled[pos] = true
				order[pos] = slot{fi, k - 1}
			}
		}
		return nil
	})
	if wf != nil {
		return wf
	}
	if nSeen != int64(total) {
		return vstat.Failf("line-count", "the files hold %d lines in total, the witness program processed %d", total, nSeen)
	}
	for i, p := range paths {
		if idx[p] != int64(len(exp[i])) {
			return vstat.Failf("line-count", "%s holds %d lines, %d were processed", filepath.Base(p), len(exp[i]), idx[p])
		}
	}
	last := make([]int, len(c.Files))
	for i := range last {
		last[i] = -1
	}
	for pos, s := range order {
		if !filled[pos] {
			return vstat.Failf("line-count", "no line was recorded at global position %d", pos)
		}
		if s.k != last[s.file]+1 {
			return vstat.Failf("file-order", "line %d of file %d was processed after line %d", s.k, s.file, last[s.file])
		}
		last[s.file] = s.k
	}
	// 1b. the program ending in `else { stop }`: counts computed here, not by a VM
	var wantX, wantNoX int64
	for i := range exp {
		for _, l := range exp[i] {
			if strings.Contains(l, "x") {
				wantX++
			} else {
				wantNoX++
			}
		}
	}
	for _, want := range []struct {
		name string
		v    int64
	}{{"with_x", wantX}, {"without_x", wantNoX}} {
		m := store.FindMetricOrNil(want.name, sname)
		if m == nil {
			return vstat.Failf("metric-missing", "%s of the fixed program is not in the store", want.name)
		}
		d, err := m.GetDatum()
		if err != nil {
			return vstat.Failf("metric-missing", "%v", err)
		}
		if got := datum.GetInt(d); got != want.v {
			return vstat.Failf("line-count", "the fixed program counted %s = %d, the files hold %d such lines (a line after one that ended in `stop` was not processed?)", want.name, got, want.v)
		}
	}
	// 2. every program: final metrics = that program run over this interleaving
	for i := 0; i < nprog; i++ {
		obj, err := hx.Compile(pname(i), src(i))
		if err != nil {
			return vstat.Failf("harness", "%v", err)
		}
		v := hx.NewVM(pname(i), obj, false, nil)
		for _, s := range order {
			v.ProcessLogLine(context.Background(), hx.Line(paths[s.file], exp[s.file][s.k]))
		}
		var want []string
		for _, m := range obj.Metrics {
			if !m.Hidden {
				want = append(want, hx.DumpMetric(m, hx.DumpOpts{Expiry: true}))
			}
		}
		sort.Strings(want)
		got := hx.DumpStore(store, pname(i), hx.DumpOpts{Expiry: true})
		if w := strings.Join(want, "\n"); got != w {
			return vstat.Failf("final-metrics-differ", "program %d: the one-shot run's metrics differ from running the program over the order-preserving interleaving the run itself used:\n%s\n--- program\n%s", i, c19Diff(got, w), src(i))
		}
	}
	return nil
}

func c19Diff(a, b string) string {
	al, bl := strings.Split(a, "\n"), strings.Split(b, "\n")
	for i := 0; i < len(al) || i < len(bl); i++ {
		var x, y string
		if i < len(al) {
			x = al[i]
		}
		if i < len(bl) {
			y = bl[i]
		}
		if x != y {
			return fmt.Sprintf("one-shot: %q\nreplay:   %q", x, y)
		}
	}
	return ""
}

func c19RunRaw(raw json.RawMessage) *vstat.Failure {
	c, err := vstat.JSON[c19Case](raw)
	if err != nil || len(c.Files) == 0 {
		return vstat.Failf("bad-replay", "%v", err)
	}
	return runC19(c)
}

func TestC19(t *testing.T) {
	st := vstat.New("C19", "one-shot runs of a real mtail server (mtail.New with OneShot, with or without its HTTP listener, then Run) over 1-3 programs from the typed grammar G plus a witness program that records the arrival order, and 1-3 files, named one by one or by a glob pattern that may also match an entry that cannot be tailed, with generated contents (lines instantiated from the programs' patterns; empty files, CRLF, a final unterminated line, 0-200 lines); oracle: Run returns within a deadline; the witness saw every line of every file exactly once and each file's lines in order; every program's final metrics equal those of running it in-process over exactly that interleaving. A set containing a program that does not compile must be refused promptly. non-trivial = >= 2 files and >= 2 programs (witness included) and a file with an unterminated last line; distinct by case")
	st.Assumptions = []string{"every program is handed the lines in the same global order (one dispatcher), so the witness's record is the interleaving of all programs", "30 s deadline for a run that normally takes milliseconds"}
	st.Run(t, c19RunRaw, func() {
		feats := gen.AllFeatures()
		feats.PinTypes, feats.OnePatternPerCond, feats.NoMixedMetricReads, feats.NoRecursiveDecorators = true, true, true, true
		feats.OtherwiseInElse = false
		feats.MaxStmts = 8
		feats.As = false
		// up to 600 lines per run: a text metric appended to itself on every line
		// would grow without bound
		feats.NoTextReads = true
		st.Check(t, func(rt *rapid.T) {
			var c c19Case
			defer st.Guard(func() any { return c })
			np := rapid.IntRange(1, 3).Draw(rt, "nprogs")
			var gs []*gen.G
			for i := 0; i < np; i++ {
				g := gen.GenProgram(rt, feats)
				c19Rename(g.P, fmt.Sprintf("p%d", i)) // no name is shared between the programs of a set (that is C06's subject)
				gs = append(gs, g)
				c.Progs = append(c.Progs, g.P)
				c.Sources = append(c.Sources, g.P.Source())
			}
			c.Broken = -1
			if rapid.IntRange(0, 11).Draw(rt, "broken") == 0 {
				c.Broken = rapid.IntRange(0, np-1).Draw(rt, "brokenidx")
			}
			nf := rapid.IntRange(1, 3).Draw(rt, "nfiles")
			unterminated := false
			for i := 0; i < nf; i++ {
				var f c19File
				n := rapid.SampledFrom([]int{0, 1, 2, 5, 20, 60, 200}).Draw(rt, "nlines")
				for k := 0; k < n; k++ {
					l := gs[rapid.IntRange(0, np-1).Draw(rt, "lp")].GenLine()
					if strings.ContainsAny(l, "\r\n") {
						l = "x"
					}
					f.Lines = append(f.Lines, l)
				}
				f.CRLF = rapid.IntRange(0, 4).Draw(rt, "crlf") == 0
				f.NoFinalNL = n > 0 && rapid.IntRange(0, 2).Draw(rt, "nonl") == 0
				if f.NoFinalNL && f.Lines[len(f.Lines)-1] == "" {
					f.Lines[len(f.Lines)-1] = "tail"
				}
				if f.NoFinalNL && rapid.IntRange(0, 3).Draw(rt, "wslast") == 0 {
					// an unterminated last line of white space only is still a line
					f.Lines[len(f.Lines)-1] = rapid.SampledFrom([]string{" ", "  ", "\t", " \t "}).Draw(rt, "ws")
					st.Class("whitespace-only-unterminated-last-line")
				}
				if f.NoFinalNL {
					unterminated = true
				}
				c.Files = append(c.Files, f)
			}
			c.Glob = rapid.SampledFrom([]int{0, 0, 1, 2, 3, 4}).Draw(rt, "glob")
			c.Wakers = rapid.SampledFrom([]int{0, 0, 1, 2}).Draw(rt, "wakers")
			if c.Wakers > 0 {
				st.Class("server-without-a-poll-waker")
			}
			if len(c.Progs) > 0 && rapid.IntRange(0, 3).Draw(rt, "copy") == 0 {
				c.Copy = 1 + rapid.IntRange(0, len(c.Progs)-1).Draw(rt, "copyof")
				st.Class("a-program-installed-twice-under-two-names")
			}
			c.Listen = rapid.SampledFrom([]int{0, 1, 2}).Draw(rt, "listen")
			if c.Listen > 0 {
				st.Class("with-http-listener")
			}
			if c.Glob >= 2 {
				st.Class("pattern-matches-an-untailable-entry")
			}
			if vstat.Thorough() {
				c.GoMaxProcs = rapid.SampledFrom([]int{0, 1, 2, 16}).Draw(rt, "gomaxprocs")
			}
			st.Eval()
			st.Class(fmt.Sprintf("files-%d", nf))
			if c.Broken >= 0 {
				st.Class("set-with-broken-program")
			}
			if unterminated {
				st.Class("unterminated-last-line")
			}
			if nf >= 2 && unterminated && c.Broken < 0 {
				b, _ := json.Marshal(c)
				st.NonTrivial(string(b), c)
			}
			st.SkipShrink(rt, c)
			st.Report(rt, runC19(c), c)
		})
	})
}

// c19Rename prefixes every metric name of the program.
func c19Rename(p *gen.Program, prefix string) {
	ren := map[string]string{}
	for _, m := range p.Metrics {
		ren[m.Name] = prefix + m.Name
	}
	for _, m := range p.Metrics {
		m.Name = ren[m.Name]
	}
	var expr func(e *gen.Expr)
	expr = func(e *gen.Expr) {
		if e == nil {
			return
		}
		if e.Op == "mread" {
			if n, ok := ren[e.Name]; ok {
				e.Name = n
			}
		}
		for _, a := range e.Args {
			expr(a)
		}
	}
	var stmts func(ss []*gen.Stmt)
	stmts = func(ss []*gen.Stmt) {
		for _, s := range ss {
			if n, ok := ren[s.Metric]; ok && s.Metric != "" {
				s.Metric = n
			}
			expr(s.E)
			for _, k := range s.Keys {
				expr(k)
			}
			stmts(s.Then)
			stmts(s.Else)
		}
	}
	stmts(p.Stmts)
	for _, d := range p.Decos {
		stmts(d.Body)
	}
}
