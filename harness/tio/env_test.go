package tio

// Shared harness for the tailer / log stream properties (C16-C19): a waker
// the harness controls (broadcast + "how many goroutines are back in Wake()"),
// a collector for the delivered lines, and small helpers.

import (
	"expvar"
	"fmt"
	"sync"
	"time"

	"github.com/google/mtail/internal/logline"
)

// hwaker implements waker.Waker. Every polling goroutine of the tailer calls
// Wake() once per idle period; Broadcast wakes all of them; Waiting says how
// many have come back since.
type hwaker struct {
	mu      sync.Mutex
	ch      chan struct{}
	waiting int
}

func newWaker() *hwaker { return &hwaker{ch: make(chan struct{})} }

func (w *hwaker) Wake() <-chan struct{} {
	w.mu.Lock()
	defer w.mu.Unlock()
	w.waiting++
	return w.ch
}

func (w *hwaker) Broadcast() {
	w.mu.Lock()
	close(w.ch)
	w.ch = make(chan struct{})
	w.waiting = 0
	w.mu.Unlock()
}

func (w *hwaker) Waiting() int {
	w.mu.Lock()
	defer w.mu.Unlock()
	return w.waiting
}

// await polls cond until it holds or the deadline passes.
func await(d time.Duration, cond func() bool) bool {
	end := time.Now().Add(d)
	for i := 0; ; i++ {
		if cond() {
			return true
		}
		if time.Now().After(end) {
			return false
		}
		if i < 200 {
			time.Sleep(20 * time.Microsecond)
		} else {
			time.Sleep(500 * time.Microsecond)
		}
	}
}

// collector drains a line channel.
type collector struct {
	mu     sync.Mutex
	lines  []*logline.LogLine
	closed bool
	done   chan struct{}
}

func collect(ch <-chan *logline.LogLine) *collector { return collectSlow(ch, 0) }

// collectSlow is a consumer that takes d over every line.
func collectSlow(ch <-chan *logline.LogLine, d time.Duration) *collector {
	c := &collector{done: make(chan struct{})}
	go func() {
		for l := range ch {
			c.mu.Lock()
			c.lines = append(c.lines, l)
			c.mu.Unlock()
			if d > 0 {
				time.Sleep(d)
			}
		}
		c.mu.Lock()
		c.closed = true
		c.mu.Unlock()
		close(c.done)
	}()
	return c
}

func (c *collector) len() int {
	c.mu.Lock()
	defer c.mu.Unlock()
	return len(c.lines)
}

func (c *collector) texts() []string {
	c.mu.Lock()
	defer c.mu.Unlock()
	out := make([]string, len(c.lines))
	for i, l := range c.lines {
		out[i] = l.Line
	}
	return out
}

func (c *collector) snapshot() []*logline.LogLine {
	c.mu.Lock()
	defer c.mu.Unlock()
	return append([]*logline.LogLine(nil), c.lines...)
}

func expInt(name string) int64 {
	v := expvar.Get(name)
	if v == nil {
		return 0
	}
	var n int64
	fmt.Sscan(v.String(), &n)
	return n
}

func expMap(name, key string) int64 {
	m, ok := expvar.Get(name).(*expvar.Map)
	if !ok {
		return 0
	}
	v := m.Get(key)
	if v == nil {
		return 0
	}
	var n int64
	fmt.Sscan(v.String(), &n)
	return n
}

var caseSeq int64
var caseMu sync.Mutex

func uniq() string {
	caseMu.Lock()
	defer caseMu.Unlock()
	caseSeq++
	return fmt.Sprintf("t%d", caseSeq)
}

func must(err error) {
	if err != nil {
		panic(err)
	}
}

// firstDiff describes the first difference of two line sequences.
func firstDiff(got, want []string) string {
	for i := 0; i < len(got) || i < len(want); i++ {
		var g, w string = "<nothing>", "<nothing>"
		if i < len(got) {
			g = fmt.Sprintf("%q", got[i])
		}
		if i < len(want) {
			w = fmt.Sprintf("%q", want[i])
		}
		if g != w {
			return fmt.Sprintf("at position %d: delivered %s, expected %s (delivered %d lines, expected %d)", i, g, w, len(got), len(want))
		}
	}
	return ""
}
