package tio

// C17 — Pipes and sockets deliver all bytes, never splice connections, then end.

import (
	"context"
	"encoding/json"
	"fmt"
	"net"
	"os"
	"path/filepath"
	"regexp"
	"strconv"
	"strings"
	"sync"
	"syscall"
	"testing"
	"time"

	"github.com/google/mtail/internal/tailer/logstream"
	"github.com/google/mtail/verif/vstat"
	"pgregory.net/rapid"
)

type c17Writer struct {
	Lines    int   `json:"lines"`     // newline-terminated lines, tagged w<id>:<seq>:<pad>
	Pads     []int `json:"pads"`      // padding length per line
	Tail     bool  `json:"tail"`      // an unterminated last line follows
	Cuts     []int `json:"cuts"`      // byte offsets where the script is cut into writes (stream kinds); empty = one write per line
	DelaysUs []int `json:"delays_us"` // delay before write i (cycled)
	// EmptyBefore: datagram sockets that are not in one-shot mode: a zero-length
	// datagram is sent before write i. It carries no line and ends nothing.
	EmptyBefore []int `json:"empty_before,omitempty"`
	// OneDatagram (unixgram): the whole script goes out as a single datagram
	// (up to about 100 KiB: a unix datagram is not limited to 64 KiB)
	OneDatagram bool `json:"one_datagram,omitempty"`
}

type c17Case struct {
	Kind        string      `json:"kind"` // fifo stdin unix tcp unixgram udp
	OneShot     bool        `json:"oneshot,omitempty"`
	Writers     []c17Writer `json:"writers"`
	CancelAtUs  int         `json:"cancel_at_us,omitempty"` // > 0: cancel the stream this long after the writers start
	Sequential  bool        `json:"sequential,omitempty"`   // stream sockets: connections one after the other instead of concurrently
	WholeWrites bool        `json:"whole_writes"`           // every write carries whole lines (shared readers: several pipe writers, datagrams)
	// HoldOpen (stream sockets with cancellation): the peers stay connected and
	// silent after their scripts until the stream has ended: cancellation alone
	// must end it. SlowUs: the consumer takes this long over every line.
	HoldOpen bool `json:"hold_open,omitempty"`
	SlowUs   int  `json:"slow_us,omitempty"`
}

// tickWaker wakes pollers after a short interval, like the production timer waker.
type tickWaker struct{ d time.Duration }

func (w tickWaker) Wake() <-chan struct{} {
	ch := make(chan struct{})
	time.AfterFunc(w.d, func() { close(ch) })
	return ch
}

func (w *c17Writer) script(id int) (string, []string) {
	var sb strings.Builder
	var lines []string
	for i := 0; i < w.Lines; i++ {
		pad := 0
		if len(w.Pads) > 0 {
			pad = w.Pads[i%len(w.Pads)]
		}
		l := fmt.Sprintf("w%d:%d:%s", id, i, strings.Repeat("x", pad))
		lines = append(lines, l)
		sb.WriteString(l + "\n")
	}
	if w.Tail {
		l := fmt.Sprintf("w%d:%d:tail", id, w.Lines)
		lines = append(lines, l)
		sb.WriteString(l)
	}
	return sb.String(), lines
}

// writes cuts the script into the byte strings of the individual writes.
func (w *c17Writer) writes(id int, whole bool) []string {
	s, lines := w.script(id)
	if w.OneDatagram {
		return []string{s}
	}
	if whole || len(w.Cuts) == 0 {
		var out []string
		for i, l := range lines {
			if w.Tail && i == len(lines)-1 {
				out = append(out, l)
			} else {
				out = append(out, l+"\n")
			}
		}
		return out
	}
	var out []string
	prev := 0
	for _, c := range w.Cuts {
		c = c % (len(s) + 1)
		if c > prev {
			out = append(out, s[prev:c])
			prev = c
		}
	}
	if prev < len(s) {
		out = append(out, s[prev:])
	}
	return out
}

var c17Tag = regexp.MustCompile(`^w(\d+):(\d+):(x*|tail)$`)

var c17StdinMu sync.Mutex

type c17Info struct {
	concurrentConns bool
	cutInsideLine   bool
	tail            bool
}

func runC17(c c17Case) (*vstat.Failure, c17Info) {
	vstat.Begin(c)
	var info c17Info
	f := vstat.Catch(func() *vstat.Failure { return runC17x(c, &info) })
	return f, info
}

func runC17x(c c17Case, info *c17Info) *vstat.Failure {
	dir, err := os.MkdirTemp(vstat.Scratch(), "c17-")
	must(err)
	defer os.RemoveAll(dir)
	ctx, cancel := context.WithCancel(context.Background())
	defer cancel()
	var wg sync.WaitGroup
	oneShot := logstream.OneShotDisabled
	if c.OneShot {
		oneShot = logstream.OneShotEnabled
	}
	nw := len(c.Writers)
	var pathname string
	var dial func() (interface {
		Write([]byte) (int, error)
		Close() error
	}, error)
	type wc = interface {
		Write([]byte) (int, error)
		Close() error
	}
	shared := false // one line reader for all writers
	switch c.Kind {
	case "fifo":
		pathname = filepath.Join(dir, "pipe")
		must(syscall.Mkfifo(pathname, 0o600))
		shared = true
		dial = func() (wc, error) {
			for i := 0; ; i++ {
				f, err := os.OpenFile(pathname, os.O_WRONLY|syscall.O_NONBLOCK, 0)
				if err == nil {
					return f, nil
				}
				if i > 2000 {
					return nil, err
				}
				time.Sleep(500 * time.Microsecond)
			}
		}
	case "stdin":
		c17StdinMu.Lock()
		defer c17StdinMu.Unlock()
		r, w, err := os.Pipe()
		must(err)
		old := os.Stdin
		os.Stdin = r
		defer func() { os.Stdin = old }()
		pathname = "-"
		shared = true
		nw = 1
		dial = func() (wc, error) { return w, nil }
	case "unix":
		sock := filepath.Join(dir, "s.sock")
		pathname = "unix://" + sock
		dial = func() (wc, error) { return net.Dial("unix", sock) }
	case "tcp":
		l, err := net.Listen("tcp", "127.0.0.1:0")
		must(err)
		addr := l.Addr().String()
		l.Close()
		pathname = "tcp://" + addr
		dial = func() (wc, error) { return net.Dial("tcp", addr) }
	case "unixgram":
		sock := filepath.Join(dir, "d.sock")
		pathname = "unixgram://" + sock
		shared = true
		dial = func() (wc, error) { return net.Dial("unixgram", sock) }
	case "udp":
		pc, err := net.ListenPacket("udp", "127.0.0.1:0")
		must(err)
		addr := pc.LocalAddr().String()
		pc.Close()
		pathname = "udp://" + addr
		shared = true
		dial = func() (wc, error) { return net.Dial("udp", addr) }
	default:
		return vstat.Failf("bad-case", "kind %q", c.Kind)
	}
	if c.OneShot && (c.Kind == "unix" || c.Kind == "tcp") {
		nw = 1
	}
	if nw > len(c.Writers) {
		nw = len(c.Writers)
	}
	writers := c.Writers[:nw]
	whole := c.WholeWrites || (shared && nw > 1) || c.Kind == "unixgram" || c.Kind == "udp"
	datagram := c.Kind == "unixgram" || c.Kind == "udp"

	ls, err := logstream.New(ctx, &wg, tickWaker{500 * time.Microsecond}, pathname, oneShot)
	if err != nil {
		return vstat.Failf("stream-new", "%v", err)
	}
	col := collectSlow(ls.Lines(), time.Duration(c.SlowUs)*time.Microsecond)
	hold := c.HoldOpen && c.CancelAtUs > 0 && (c.Kind == "unix" || c.Kind == "tcp") && !c.Sequential
	release := make(chan struct{})
	var releaseOnce sync.Once
	letGo := func() { releaseOnce.Do(func() { close(release) }) }
	defer letGo()

	// expected per writer
	expLines := make([][]string, nw)
	total := 0
	for i := range writers {
		w := writers[i]
		if datagram || (shared && nw > 1) {
			w.Tail = false
			writers[i].Tail = false
			if writers[i].Lines == 0 {
				// a pipe writer that writes nothing is indistinguishable from "no
				// writer yet" for the reader: every writer writes something
				writers[i].Lines = 1
			}
			// one write must stay atomic (PIPE_BUF): keep the lines short
			for k := range writers[i].Pads {
				if writers[i].Pads[k] > 300 {
					writers[i].Pads[k] = 300
				}
			}
			w = writers[i]
		}
		_, expLines[i] = w.script(i)
		total += len(expLines[i])
		if w.Tail {
			info.tail = true
		}
		if !whole && len(w.Cuts) > 0 {
			info.cutInsideLine = true
		}
	}
	if (c.Kind == "unix" || c.Kind == "tcp") && nw >= 2 && !c.Sequential {
		info.concurrentConns = true
	}

	// writers
	var opened, finished sync.WaitGroup
	opened.Add(nw)
	start := make(chan struct{})
	for i := range writers {
		finished.Add(1)
		go func(id int) {
			defer finished.Done()
			w := writers[id]
			if c.Sequential && (c.Kind == "unix" || c.Kind == "tcp") {
				// wait for the previous connection to be done
				for k := 0; k < id; k++ {
					<-seqDone(dir, k)
				}
			}
			conn, err := dial()
			opened.Done()
			if err != nil {
				markSeqDone(dir, id)
				return
			}
			if !c.Sequential {
				<-start
			}
			for k, chunk := range w.writes(id, whole) {
				if len(w.DelaysUs) > 0 {
					if d := w.DelaysUs[k%len(w.DelaysUs)]; d > 0 {
						time.Sleep(time.Duration(d) * time.Microsecond)
					}
				}
				if datagram && !c.OneShot {
					for _, e := range w.EmptyBefore {
						if e == k {
							_, _ = conn.Write(nil)
							time.Sleep(50 * time.Microsecond)
						}
					}
				}
				if _, err := conn.Write([]byte(chunk)); err != nil {
					break
				}
				if datagram {
					time.Sleep(50 * time.Microsecond) // pace datagrams: a full receive buffer drops them
				}
			}
			if hold {
				<-release
			}
			conn.Close()
			markSeqDone(dir, id)
		}(i)
	}
	if !c.Sequential {
		// pipes: every writer has the pipe open before the first one can close it
		opened.Wait()
	}
	close(start)
	cancelled := false
	if c.CancelAtUs > 0 {
		time.Sleep(time.Duration(c.CancelAtUs) * time.Microsecond)
		cancel()
		cancelled = true
	}
	wdone := make(chan struct{})
	go func() { finished.Wait(); close(wdone) }()
	if hold {
		// the peers do not close: the stream has to end on the cancellation
		select {
		case <-col.done:
		case <-time.After(10 * time.Second):
			return vstat.Failf("stream-does-not-end", "%s stream: the line channel was not closed within 10 s after cancellation while its peers stayed connected and silent", c.Kind)
		}
		letGo()
	}
	select {
	case <-wdone:
	case <-time.After(20 * time.Second):
		if !cancelled {
			return vstat.Failf("writers-blocked", "the writers could not finish within 20 s: the stream stopped reading")
		}
	}
	endsByItself := c.Kind == "fifo" || c.Kind == "stdin" || (c.OneShot && (c.Kind == "unix" || c.Kind == "tcp"))
	if !cancelled {
		// everything written must arrive
		await(10*time.Second, func() bool { return col.len() >= total || col.closedNow() })
		if !endsByItself {
			// sockets end on cancellation only
			await(2*time.Second, func() bool { return col.len() >= total })
			cancel()
		}
	}
	select {
	case <-col.done:
	case <-time.After(10 * time.Second):
		why := "cancellation"
		if endsByItself && !cancelled {
			why = "its last writer closed"
		}
		return vstat.Failf("stream-does-not-end", "%s stream: the line channel was not closed within 10 s after %s", c.Kind, why)
	}
	wg.Wait()

	// oracle
	got := col.texts()
	next := make([]int, nw)
	lastAt := make([]int, nw) // index of the last complete line delivered per writer
	for i := range lastAt {
		lastAt[i] = -1
	}
	type frag struct {
		at   int
		text string
	}
	var frags []frag
	for gi, l := range got {
		m := c17Tag.FindStringSubmatch(l)
		if m != nil {
			id, _ := strconv.Atoi(m[1])
			seq, _ := strconv.Atoi(m[2])
			if id < nw && seq < len(expLines[id]) && l == expLines[id][seq] {
				if seq != next[id] {
					sig := "line-lost"
					if seq < next[id] {
						sig = "line-duplicated"
					}
					return vstat.Failf(sig, "%s stream: writer %d's line %d arrived where its line %d was due (%q)", c.Kind, id, seq, next[id], l)
				}
				next[id]++
				lastAt[id] = gi
				continue
			}
		}
		if !cancelled {
			sig := "line-merged-or-torn"
			if strings.Count(l, "w") >= 2 && strings.Count(l, ":") >= 4 {
				sig = "lines-spliced"
			}
			return vstat.Failf(sig, "%s stream delivered %q, which no writer wrote as one line", c.Kind, l)
		}
		frags = append(frags, frag{gi, l})
	}
	if len(frags) > 0 {
		// cancelled: the read that cancellation interrupts may have taken part of a
		// line, which is flushed as it is. Each such fragment must be a proper
		// prefix of the line that was due next from SOME writer, come after that
		// writer's complete lines, and no writer may account for two of them.
		var assign func(k int, used []bool) bool
		assign = func(k int, used []bool) bool {
			if k == len(frags) {
				return true
			}
			for id := 0; id < nw; id++ {
				if used[id] || next[id] >= len(expLines[id]) || lastAt[id] > frags[k].at {
					continue
				}
				e := expLines[id][next[id]]
				if e != frags[k].text && strings.HasPrefix(e, frags[k].text) {
					used[id] = true
					if assign(k+1, used) {
						return true
					}
					used[id] = false
				}
			}
			return false
		}
		if len(frags) > nw || !assign(0, make([]bool, nw)) {
			var ts []string
			for _, f := range frags {
				ts = append(ts, f.text)
			}
			return vstat.Failf("line-merged-or-torn", "%s stream (cancelled): delivered %q, which cannot be explained as one interrupted line per writer", c.Kind, ts)
		}
	}
	if !cancelled {
		for id := range writers {
			if next[id] != len(expLines[id]) {
				sig := "line-lost"
				if writers[id].Tail && next[id] == len(expLines[id])-1 {
					sig = "unterminated-tail-lost"
				}
				return vstat.Failf(sig, "%s stream: writer %d wrote %d lines and closed, %d were delivered before the stream ended", c.Kind, id, len(expLines[id]), next[id])
			}
		}
	}
	return nil
}

// sequential connections: a tiny per-case registry of "writer k is done" channels
var (
	seqMu sync.Mutex
	seqCh = map[string]chan struct{}{}
)

func seqDone(dir string, k int) chan struct{} {
	seqMu.Lock()
	defer seqMu.Unlock()
	key := dir + "/" + strconv.Itoa(k)
	if seqCh[key] == nil {
		seqCh[key] = make(chan struct{})
	}
	return seqCh[key]
}

func markSeqDone(dir string, k int) {
	ch := seqDone(dir, k)
	seqMu.Lock()
	defer seqMu.Unlock()
	select {
	case <-ch:
	default:
		close(ch)
	}
}

func (c *collector) closedNow() bool {
	c.mu.Lock()
	defer c.mu.Unlock()
	return c.closed
}

func c17RunRaw(raw json.RawMessage) *vstat.Failure {
	c, err := vstat.JSON[c17Case](raw)
	if err != nil || len(c.Writers) == 0 {
		return vstat.Failf("bad-replay", "%v", err)
	}
	f, _ := runC17(c)
	return f
}

func TestC17(t *testing.T) {
	st := vstat.New("C17", "per stream type (named pipe, stdin replaced by a pipe, unix:// and tcp:// stream sockets, unixgram:// and udp:// datagram sockets) 1-4 writers with drawn scripts: tagged lines w<id>:<seq>:<padding>, cut into writes at drawn byte offsets (stream connections, single pipe writer) or one line per write (shared readers: several pipe writers, datagrams), drawn delays between writes, zero-length datagrams in between (datagram sockets outside one-shot mode), an optional unterminated last line, connections concurrent or one after the other, optional one-shot mode, optional cancellation at a drawn moment. Oracle: every delivered line is exactly one written line, per writer the sequence numbers arrive 0,1,2,... without gap or repeat, without cancellation every script arrives completely including the unterminated tail, and the line channel is closed within a deadline after the last writer closed (pipes, one-shot sockets) or after cancellation. non-trivial = two concurrent stream connections with cuts inside lines, or an unterminated last line; distinct by case")
	st.Assumptions = []string{"interleavings of the writers are whatever the drawn delays and the kernel produce", "datagrams are paced so that the receive buffer does not overflow", "10 s deadlines for events that normally take milliseconds"}
	st.Run(t, c17RunRaw, func() {
		kinds := []string{"fifo", "stdin", "unix", "unix", "tcp", "tcp", "unixgram", "udp"}
		st.Check(t, func(rt *rapid.T) {
			var c c17Case
			defer st.Guard(func() any { return c })
			c.Kind = rapid.SampledFrom(kinds).Draw(rt, "kind")
			if c.Kind == "unix" || c.Kind == "tcp" {
				c.OneShot = rapid.IntRange(0, 4).Draw(rt, "oneshot") == 0
				c.Sequential = rapid.IntRange(0, 2).Draw(rt, "sequential") == 0
			}
			nw := rapid.IntRange(1, 4).Draw(rt, "writers")
			for i := 0; i < nw; i++ {
				var w c17Writer
				w.Lines = rapid.IntRange(0, 30).Draw(rt, "lines")
				if c.Kind == "unixgram" && i == 0 && rapid.IntRange(0, 2).Draw(rt, "bulk") == 0 {
					// sustained traffic: more than one read buffer (128 KiB) in total.
					// Only on unixgram, where a full receive queue blocks the sender
					// instead of dropping datagrams.
					w.Lines = rapid.IntRange(600, 900).Draw(rt, "bulklines")
					st.Class("datagram-bulk-over-128KiB")
				}
				if c.Kind == "unixgram" && i == 0 && w.Lines < 600 && rapid.IntRange(0, 1).Draw(rt, "onedgram") == 0 {
					// one large datagram: 1500-2300 lines of about 55 bytes
					w.Lines = rapid.IntRange(1500, 2300).Draw(rt, "dgramlines")
					w.OneDatagram = true
					st.Class("one-unix-datagram-over-64KiB")
				}
				np := rapid.IntRange(1, 4).Draw(rt, "npads")
				for k := 0; k < np; k++ {
					w.Pads = append(w.Pads, rapid.SampledFrom([]int{0, 1, 10, 80, 300, 5000}).Draw(rt, "pad"))
				}
				if w.Lines >= 300 {
					w.Pads = []int{300, 290, 300, 280}
				}
				if w.OneDatagram {
					w.Pads = []int{44, 40, 48, 42}
				}
				w.Tail = rapid.IntRange(0, 2).Draw(rt, "tail") == 0
				if w.Lines == 0 && !w.Tail {
					w.Lines = 1
				}
				nc := rapid.IntRange(0, 8).Draw(rt, "ncuts")
				prev := 0
				for k := 0; k < nc; k++ {
					prev += rapid.IntRange(1, 400).Draw(rt, "cut")
					w.Cuts = append(w.Cuts, prev)
				}
				nd := rapid.IntRange(0, 3).Draw(rt, "ndelays")
				for k := 0; k < nd; k++ {
					w.DelaysUs = append(w.DelaysUs, rapid.SampledFrom([]int{0, 0, 20, 200, 2000}).Draw(rt, "delay"))
				}
				if (c.Kind == "unixgram" || c.Kind == "udp") && !c.OneShot && w.Lines > 0 && rapid.IntRange(0, 2).Draw(rt, "empties") == 0 {
					ne := rapid.IntRange(1, 3).Draw(rt, "nempty")
					for k := 0; k < ne; k++ {
						w.EmptyBefore = append(w.EmptyBefore, rapid.IntRange(0, w.Lines-1).Draw(rt, "emptyat"))
					}
					st.Class("zero-length-datagrams")
				}
				c.Writers = append(c.Writers, w)
			}
			if rapid.IntRange(0, 5).Draw(rt, "cancel") == 0 {
				c.CancelAtUs = rapid.SampledFrom([]int{1, 100, 1000, 5000}).Draw(rt, "cancelat")
				if (c.Kind == "unix" || c.Kind == "tcp") && !c.Sequential && rapid.Bool().Draw(rt, "hold") {
					c.HoldOpen = true
					c.SlowUs = rapid.SampledFrom([]int{0, 50, 300}).Draw(rt, "slow")
					st.Class("cancelled-while-peers-stay-connected")
				}
			}
			st.SkipShrink(rt, c)
			f, info := runC17(c)
			st.Eval()
			st.Class("kind:" + c.Kind)
			if c.CancelAtUs > 0 {
				st.Class("cancelled-midway")
			}
			if c.OneShot {
				st.Class("one-shot")
			}
			if info.concurrentConns {
				st.Class("concurrent-stream-connections")
			}
			if info.cutInsideLine {
				st.Class("writes-cut-inside-lines")
			}
			if info.tail {
				st.Class("unterminated-last-line")
			}
			if (info.concurrentConns && info.cutInsideLine) || info.tail {
				b, _ := json.Marshal(c)
				st.NonTrivial(string(b), c)
			}
			st.Report(rt, f, c)
		})
	})
}
