package tio

// C16 — A tailed file delivers every appended line exactly once across rotation.

import (
	"context"
	"encoding/json"
	"fmt"
	"io"
	"os"
	"path/filepath"
	"strings"
	"sync"
	"testing"
	"time"

	"github.com/google/mtail/internal/logline"
	"github.com/google/mtail/internal/tailer"
	"github.com/google/mtail/verif/vstat"
	"pgregory.net/rapid"
)

type c16Step struct {
	Op string `json:"op"` // line crlf multi frag complete truncate rotate copytruncate delete recreate poll
	N  int    `json:"n,omitempty"`
}

type c16Case struct {
	Pre string `json:"pre"` // content of the file before tailing begins ("" = file exists but empty, "-" = file does not exist)
	// Patterns: how many log path patterns name the file (1: its absolute path;
	// 2: also dir/*.log; 3: also dir/app.lo?). Each pattern has a poller of its
	// own; they all see the file (re)appear at the same poll.
	Patterns int       `json:"patterns,omitempty"`
	Steps    []c16Step `json:"steps"`
}

type c16Info struct {
	fragAtGenEnd int
	genChanges   int
	barrierSlow  int
}

func runC16(c c16Case) (*vstat.Failure, c16Info) {
	vstat.Begin(c)
	var info c16Info
	f := vstat.Catch(func() *vstat.Failure { return runC16x(c, &info) })
	return f, info
}

func runC16x(c c16Case, info *c16Info) *vstat.Failure {
	dir, err := os.MkdirTemp(vstat.Scratch(), "c16-")
	must(err)
	defer os.RemoveAll(dir)
	path := filepath.Join(dir, "app.log")
	exists := c.Pre != "-"
	if exists {
		must(os.WriteFile(path, []byte(c.Pre), 0o644))
	}
	ctx, cancel := context.WithCancel(context.Background())
	defer cancel()
	var wg sync.WaitGroup
	lines := make(chan *logline.LogLine)
	sw, pw := newWaker(), newWaker()
	logCount0 := expInt("log_count")
	col := collect(lines)
	patterns := tailer.LogPatterns{path}
	if c.Patterns >= 2 {
		patterns = append(patterns, filepath.Join(dir, "*.log"))
	}
	if c.Patterns >= 3 {
		patterns = append(patterns, filepath.Join(dir, "app.lo?"))
	}
	_, err = tailer.New(ctx, &wg, lines, patterns, tailer.LogstreamPollWaker(sw), tailer.LogPatternPollWaker(pw))
	if err != nil {
		return vstat.Failf("tailer-new", "%v", err)
	}
	live := 0
	if exists {
		live = 1
	}
	// model
	var exp []string
	pending := ""
	seq := 0
	appendData := func(d string) {
		f, err := os.OpenFile(path, os.O_WRONLY|os.O_APPEND, 0o644)
		must(err)
		_, err = f.WriteString(d)
		must(err)
		must(f.Close())
		data := pending + d
		parts := strings.Split(data, "\n")
		for _, p := range parts[:len(parts)-1] {
			exp = append(exp, strings.TrimSuffix(p, "\r"))
		}
		pending = parts[len(parts)-1]
	}
	endGeneration := func() {
		info.genChanges++
		if pending != "" {
			info.fragAtGenEnd++
			exp = append(exp, pending)
			pending = ""
		}
	}
	// settle: let the tailer observe the present state of the filesystem
	settle := func(step int, what string) *vstat.Failure {
		// 1. the stream looks at its file
		sw.Broadcast()
		ok := await(5*time.Second, func() bool {
			return sw.Waiting() == live && expInt("log_count")-logCount0 == int64(live)
		})
		if !ok {
			info.barrierSlow++
		}
		// 2. the pattern poller globs; a newly started stream reads up to EOF
		pw.Broadcast()
		if exists {
			live = 1
		}
		ok = await(5*time.Second, func() bool {
			return pw.Waiting() == len(patterns) && sw.Waiting() == live && expInt("log_count")-logCount0 == int64(live)
		})
		if !ok {
			info.barrierSlow++
		}
		// 3. everything expected so far has been delivered, and nothing else
		await(3*time.Second, func() bool { return col.len() >= len(exp) })
		// a duplicate or a glued line would arrive right behind: give the forwarder a moment
		got := col.texts()
		if len(got) != len(exp) || firstDiff(got, exp) != "" {
			time.Sleep(2 * time.Millisecond)
			got = col.texts()
		}
		if d := firstDiff(got, exp); d != "" {
			return vstat.Failf(c16Sig(got, exp, what), "after step %d (%s): %s\ndelivered: %q\nexpected:  %q", step, what, d, got, exp)
		}
		return nil
	}
	if f := settle(-1, "start"); f != nil {
		return f
	}
	for si, st := range c.Steps {
		op := st.Op
		if !exists && op != "recreate" && op != "poll" {
			op = "poll"
		}
		switch op {
		case "line":
			seq++
			appendData(fmt.Sprintf("L%d\n", seq))
		case "crlf":
			// a CR LF terminated line; its own text may contain carriage
			// returns too, in the middle or as its last byte (a progress
			// display), and only the terminator's is dropped
			seq++
			switch st.N % 4 {
			case 2:
				appendData(fmt.Sprintf("L%d\rmid\r\n", seq))
			case 3:
				appendData(fmt.Sprintf("L%d\r\r\n", seq))
			default:
				appendData(fmt.Sprintf("L%d\r\n", seq))
			}
		case "binary":
			// bytes that are not UTF-8 (a Latin-1 log, a stray continuation byte, a
			// sequence cut short by the line end): delivered as they are
			seq++
			appendData(fmt.Sprintf("L%d caf\xe9 \xff\xfe \x80 \xe3\x81\n", seq))
		case "special":
			// a line that begins and ends with something text handling
			// elsewhere treats specially (white space, NUL, a byte order
			// mark, a Unicode line separator): delivered as it is
			seq++
			sp := c16Special[(st.N+si)%len(c16Special)]
			appendData(fmt.Sprintf("%sL%d%s\n", sp, seq, sp))
		case "multi":
			var sb strings.Builder
			for k := 0; k < 2+st.N%3; k++ {
				seq++
				fmt.Fprintf(&sb, "L%d\n", seq)
			}
			if st.N%2 == 1 {
				seq++
				fmt.Fprintf(&sb, "F%d", seq)
			}
			appendData(sb.String())
		case "frag":
			seq++
			// fragments of very different lengths (the data after a truncation may be
			// shorter or longer than the fragment flushed before it)
			appendData(fmt.Sprintf("F%d%s", seq, strings.Repeat("_", (st.N%4)*(st.N%4)*6)))
		case "frag-cr":
			// a fragment whose last byte so far is a carriage return
			seq++
			appendData(fmt.Sprintf("F%d\r", seq))
		case "cr-truncate-newline":
			// a fragment ending in a carriage return is flushed by a truncation, and
			// the first byte of the new generation is a line feed
			seq++
			appendData(fmt.Sprintf("F%d\r", seq))
			if f := settle(si, op+":fragment"); f != nil {
				return f
			}
			must(os.Truncate(path, 0))
			endGeneration()
			if f := settle(si, op+":truncate"); f != nil {
				return f
			}
			appendData("\n")
		case "blank":
			// an empty line (completes a pending fragment, or stands alone)
			appendData("\n")
		case "complete":
			seq++
			appendData(fmt.Sprintf("-c%d\n", seq))
		case "burst":
			// a burst that fills the stream's read buffer (128 KiB) exactly, once or
			// twice, with fixed-width records, so that a read ends on a line end
			// with no room left; optionally a short line right behind it
			w := []int{64, 128, 512}[st.N%3]
			total := 131072 * (1 + st.N/3%2)
			var sb strings.Builder
			sb.Grow(total + 16)
			for written := 0; written < total; written += w {
				seq++
				rec := fmt.Sprintf("B%d", seq)
				sb.WriteString(rec)
				sb.WriteString(strings.Repeat(".", w-1-len(rec)))
				sb.WriteByte('\n')
			}
			if st.N%2 == 1 {
				seq++
				fmt.Fprintf(&sb, "L%d\n", seq)
			}
			appendData(sb.String())
		case "truncate":
			must(os.Truncate(path, 0))
			endGeneration()
		case "copytruncate":
			src, err := os.Open(path)
			must(err)
			dst, err := os.Create(path + ".1")
			must(err)
			_, err = io.Copy(dst, src)
			must(err)
			src.Close()
			dst.Close()
			must(os.Truncate(path, 0))
			endGeneration()
		case "rotate":
			must(os.Rename(path, fmt.Sprintf("%s.%d", path, si+2)))
			f, err := os.Create(path)
			must(err)
			f.Close()
			endGeneration()
			if st.N%2 == 1 {
				// the writer reopens the path and logs at once: the new generation
				// already has content when the tailer looks
				seq++
				appendData(fmt.Sprintf("L%d\nL%d\n", seq, seq+1))
				seq++
			}
		case "delete":
			must(os.Remove(path))
			exists = false
			live = 0
			endGeneration()
		case "replace-between-wakes":
			// the file is removed and another one created under its name, with the
			// pattern poller looking in between and afterwards, all before the stream
			// wakes: one stream goes on, with the new file from its start
			must(os.Remove(path))
			endGeneration()
			pollPatterns := func() {
				pw.Broadcast()
				await(5*time.Second, func() bool { return pw.Waiting() == len(patterns) })
			}
			pollPatterns()
			f, err := os.Create(path)
			must(err)
			f.Close()
			if st.N%2 == 1 {
				seq++
				appendData(fmt.Sprintf("L%d\nL%d\n", seq, seq+1))
				seq++
			}
			pollPatterns()
		case "delete-recreate":
			// the file is removed, the stream notices and ends, and the file is
			// there again before any pattern poll has seen the path missing
			must(os.Remove(path))
			endGeneration()
			sw.Broadcast()
			await(5*time.Second, func() bool {
				return sw.Waiting() == 0 && expInt("log_count")-logCount0 == 0
			})
			f, err := os.Create(path)
			must(err)
			f.Close()
			live = 0
		case "recreate":
			if exists {
				break
			}
			f, err := os.Create(path)
			must(err)
			f.Close()
			exists = true
		case "poll":
		}
		if f := settle(si, op); f != nil {
			return f
		}
	}
	// stop tailing: the pending fragment is delivered once
	cancel()
	if pending != "" {
		info.fragAtGenEnd++
		exp = append(exp, pending)
		pending = ""
	}
	select {
	case <-col.done:
	case <-time.After(10 * time.Second):
		return vstat.Failf("tailer-does-not-stop", "the tailer's line channel was not closed within 10 s of cancellation")
	}
	wg.Wait()
	got := col.texts()
	if d := firstDiff(got, exp); d != "" {
		return vstat.Failf(c16Sig(got, exp, "stop"), "after stopping: %s\ndelivered: %q\nexpected:  %q", d, got, exp)
	}
	return nil
}

// c16Sig classifies a mismatch by what happened to the first differing line.
func c16Sig(got, exp []string, what string) string {
	count := func(xs []string, s string) int {
		n := 0
		for _, x := range xs {
			if x == s {
				n++
			}
		}
		return n
	}
	for i := 0; i < len(got) || i < len(exp); i++ {
		if i < len(got) && i < len(exp) && got[i] == exp[i] {
			continue
		}
		if i < len(got) {
			g := got[i]
			if count(exp, g) == 0 {
				// a line nobody wrote: glued or torn
				for _, e := range exp {
					if e != "" && e != g && strings.Contains(g, e) {
						return "lines-merged"
					}
				}
				return "line-content"
			}
			if count(got, g) > count(exp, g) {
				return "line-duplicated"
			}
		}
		if i < len(exp) && count(got, exp[i]) == 0 {
			if strings.HasPrefix(exp[i], "F") && !strings.Contains(exp[i], "-c") {
				return "fragment-lost:" + c16Cause(what)
			}
			return "line-lost:" + c16Cause(what)
		}
		return "order"
	}
	return "mismatch"
}

func c16Cause(what string) string {
	switch what {
	case "truncate", "copytruncate", "rotate", "delete", "stop":
		return what
	}
	return "append"
}

func c16RunRaw(raw json.RawMessage) *vstat.Failure {
	c, err := vstat.JSON[c16Case](raw)
	if err != nil {
		return vstat.Failf("bad-replay", "%v", err)
	}
	f, _ := runC16(c)
	return f
}

func TestC16(t *testing.T) {
	st := vstat.New("C16", "histories on a real file tailed through tailer.New (its absolute path, optionally also named by one or two overlapping glob patterns) with harness-controlled wakers: append line / CRLF line / line with bytes that are not UTF-8 / several lines in one write / unterminated fragment (also one ending in a carriage return) / completion of a fragment / empty line / a burst of fixed-width records filling the 128 KiB read buffer exactly once or twice, truncate in place, rename+create, copy+truncate, delete, re-create (empty), delete and re-create between two pattern polls (the stream has seen the deletion, the pattern poller has not), replace the file between two stream wakes with pattern polls in between (the pattern poller has seen the path missing, the stream has not), poll without change; the file may pre-exist with content incl. half a line or not exist at first. After every step the tailer is made to observe it (stream wake barrier, pattern poll barrier, log_count) and the delivered lines must equal the model's sequence exactly; finally tailing is stopped. non-trivial = a fragment pending when a generation ends, or >= 2 generation changes; distinct by history")
	st.Assumptions = []string{"a step counts as observed when every live stream and the pattern poller are back in Wake() and log_count matches the model", "every line carries a sequence number, so loss, duplication, merging and reordering are told apart"}
	st.Run(t, c16RunRaw, func() {
		ops := []string{"line", "line", "crlf", "multi", "frag", "frag", "complete", "truncate", "rotate", "copytruncate", "delete", "recreate", "poll",
			"line", "line", "crlf", "multi", "frag", "frag", "complete", "truncate", "rotate", "copytruncate", "delete", "recreate", "poll", "burst", "binary", "binary", "special", "special", "delete-recreate", "replace-between-wakes", "frag-cr", "blank", "blank", "cr-truncate-newline"}
		var drop []string
		if st.IsLive("C16-1") { // fragment re-delivered after truncation
			drop = append(drop, "C16-1")
		}
		st.Check(t, func(rt *rapid.T) {
			var c c16Case
			defer st.Guard(func() any { return c })
			c.Pre = rapid.SampledFrom([]string{"", "", "old1\nold2\n", "old1\nhalf", "-"}).Draw(rt, "pre")
			c.Patterns = rapid.SampledFrom([]int{1, 1, 2, 3}).Draw(rt, "patterns")
			n := rapid.IntRange(1, vstat.Scale(12, 40)).Draw(rt, "nsteps")
			for i := 0; i < n; i++ {
				c.Steps = append(c.Steps, c16Step{Op: rapid.SampledFrom(ops).Draw(rt, "op"), N: rapid.IntRange(0, 5).Draw(rt, "n")})
			}
			st.SkipShrink(rt, c)
			f, info := runC16(c)
			st.Eval()
			for _, s := range c.Steps {
				st.Class("op:" + s.Op)
			}
			if c.Patterns > 1 {
				st.Class("overlapping-patterns")
			}
			if info.fragAtGenEnd > 0 {
				st.Class("fragment-pending-at-generation-end")
			}
			if info.genChanges >= 2 {
				st.Class("two-or-more-generation-changes")
			}
			if info.barrierSlow > 0 {
				st.ClassN("barrier-deadline-hit", info.barrierSlow)
			}
			if info.fragAtGenEnd > 0 || info.genChanges >= 2 {
				b, _ := json.Marshal(c)
				st.NonTrivial(string(b), c)
			}
			st.Report(rt, f, c)
		})
		_ = drop
	})
}

var c16Special = []string{" ", "\t", "\x00", "\x0b", "\x0c", "\x1a", "\x7f", "\xef\xbb\xbf", "\xc2\x85", "\xe2\x80\xa8", "\xc2\xa0"}
