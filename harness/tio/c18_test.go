package tio

// C18 — Every matching log path is tailed, once.

import (
	"context"
	"encoding/json"
	"fmt"
	"os"
	"path/filepath"
	"regexp"
	"sort"
	"strings"
	"sync"
	"testing"
	"time"

	"github.com/google/mtail/internal/logline"
	"github.com/google/mtail/internal/tailer"
	"github.com/google/mtail/verif/vstat"
	"pgregory.net/rapid"
)

// names the history draws from (relative to the tree root)
var c18Names = []string{"a.log", "b.log", "c.log", "x.log.gz", "sub/c.log", "sub/d.log", "note.txt", "d.log", "ab.log"}

// patterns (relative to the tree root; "./" = given relative, resolved
// against the process's working directory, which is the tree root)
var c18Patterns = []string{"*.log", "a*", "[ab].log", "*/*.log", "a.log", "./*.log", "./sub/*.log", "*.log*", "sub/c.log", "?.log", "?b.log", "[*a].log", "x.log.gz"}

var c18Ignores = []string{"", `\.gz$`, `^b`, `^c\.`}

type c18Step struct {
	Op   string `json:"op"` // create delete rename mkdir rmdir append poll
	Name int    `json:"name"`
	To   int    `json:"to,omitempty"`
}

type c18Case struct {
	Patterns []int     `json:"patterns"`
	Ignore   int       `json:"ignore"`
	Init     []int     `json:"init"` // names that exist as files before the tailer starts
	InitDir  bool      `json:"init_dir"`
	Steps    []c18Step `json:"steps"`
}

// c18Match is a small glob matcher of its own (components separated by '/';
// '*' matches any run of non-separator characters, '[ab]' a set).
func c18Match(pattern, name string) bool {
	pp, nn := strings.Split(pattern, "/"), strings.Split(name, "/")
	if len(pp) != len(nn) {
		return false
	}
	for i := range pp {
		if !c18MatchComp(pp[i], nn[i]) {
			return false
		}
	}
	return true
}

func c18MatchComp(p, s string) bool {
	if p == "" {
		return s == ""
	}
	switch p[0] {
	case '*':
		for k := 0; k <= len(s); k++ {
			if c18MatchComp(p[1:], s[k:]) {
				return true
			}
		}
		return false
	case '?':
		return s != "" && c18MatchComp(p[1:], s[1:])
	case '[':
		end := strings.IndexByte(p, ']')
		if end < 0 || s == "" {
			return false
		}
		if !strings.ContainsRune(p[1:end], rune(s[0])) {
			return false
		}
		return c18MatchComp(p[end+1:], s[1:])
	}
	return s != "" && p[0] == s[0] && c18MatchComp(p[1:], s[1:])
}

type c18Info struct {
	overlap, recreated bool
	slow               int
	slowOps            []string
}

var c18Mu sync.Mutex // the working directory is process-global

func runC18(c c18Case) (*vstat.Failure, c18Info) {
	vstat.Begin(c)
	var info c18Info
	f := vstat.Catch(func() *vstat.Failure { return runC18x(c, &info) })
	return f, info
}

func runC18x(c c18Case, info *c18Info) *vstat.Failure {
	c18Mu.Lock()
	defer c18Mu.Unlock()
	root, err := os.MkdirTemp(vstat.Scratch(), "c18-")
	must(err)
	defer os.RemoveAll(root)
	root, err = filepath.EvalSymlinks(root)
	must(err)
	must(os.Mkdir(filepath.Join(root, "sub"), 0o755))
	oldwd, _ := os.Getwd()
	must(os.Chdir(root))
	defer os.Chdir(oldwd)

	abs := func(rel string) string { return filepath.Join(root, rel) }
	// model of the tree: rel name -> "file" | "dir"
	tree := map[string]string{}
	for _, i := range c.Init {
		n := c18Names[i%len(c18Names)]
		if n == "d.log" && c.InitDir {
			continue
		}
		must(os.WriteFile(abs(n), []byte("old line\n"), 0o644))
		tree[n] = "file"
	}
	if c.InitDir {
		must(os.Mkdir(abs("d.log"), 0o755))
		must(os.WriteFile(abs("d.log/inner.log"), []byte("x\n"), 0o644))
		tree["d.log"] = "dir"
		tree["d.log/inner.log"] = "file"
	}
	var pats, relPats []string
	for _, pi := range c.Patterns {
		p := c18Patterns[pi%len(c18Patterns)]
		if strings.HasPrefix(p, "./") {
			pats = append(pats, p[2:]) // given relative
		} else {
			pats = append(pats, abs(p))
		}
		relPats = append(relPats, strings.TrimPrefix(p, "./"))
	}
	ign := c18Ignores[c.Ignore%len(c18Ignores)]
	var ignRE *regexp.Regexp
	if ign != "" {
		ignRE = regexp.MustCompile(ign)
	}
	eligible := func(rel string) bool {
		if tree[rel] != "file" {
			return false
		}
		if ignRE != nil && ignRE.MatchString(filepath.Base(rel)) {
			return false
		}
		n := 0
		for _, p := range relPats {
			if c18Match(p, rel) {
				n++
			}
		}
		if n > 1 {
			info.overlap = true
		}
		return n > 0
	}

	ctx, cancel := context.WithCancel(context.Background())
	defer cancel()
	var wg sync.WaitGroup
	lines := make(chan *logline.LogLine)
	sw, pw := newWaker(), newWaker()
	logCount0 := expInt("log_count")
	col := collect(lines)
	opts := []tailer.Option{tailer.LogPatterns(pats), tailer.LogstreamPollWaker(sw), tailer.LogPatternPollWaker(pw)}
	if ign != "" {
		opts = append(opts, tailer.IgnoreRegex(ign))
	}
	if _, err := tailer.New(ctx, &wg, lines, opts...); err != nil {
		return vstat.Failf("tailer-new", "%v", err)
	}
	// tailed: the model's set of paths with a live stream
	tailed := map[string]bool{}
	for n := range tree {
		if eligible(n) {
			tailed[n] = true
		}
	}
	everTailed := map[string]bool{}
	missed := false
	settle := func() {
		// streams notice deletions and renames
		for n := range tailed {
			if tree[n] != "file" {
				delete(tailed, n)
			}
		}
		sw.Broadcast()
		w1 := 5 * time.Second
		if missed {
			w1 = 100 * time.Millisecond
		}
		if !await(w1, func() bool {
			return sw.Waiting() == len(tailed) && expInt("log_count")-logCount0 == int64(len(tailed))
		}) {
			info.slow++
			missed = true
		}
		// pattern pollers pick up new matches
		for n := range tree {
			if eligible(n) {
				if everTailed[n] && !tailed[n] {
					info.recreated = true
				}
				tailed[n] = true
			}
		}
		for n := range tailed {
			everTailed[n] = true
		}
		pw.Broadcast()
		wait := 5 * time.Second
		if missed {
			// a barrier of this case has been missed before (a pattern without a
			// poller, a match that is not tailed): what follows will show it; do
			// not spend the deadline again at every step
			wait = 100 * time.Millisecond
		}
		if !await(wait, func() bool {
			return pw.Waiting() == len(pats) && sw.Waiting() == len(tailed) && expInt("log_count")-logCount0 == int64(len(tailed))
		}) {
			info.slow++
			missed = true
		}
	}
	seen := 0
	probeNo := 0
	// probe: append a unique line to every regular file; it must arrive exactly
	// once for the tailed ones (attributed to that path) and never for the others
	probe := func(step int, what string) *vstat.Failure {
		probeNo++
		var files []string
		for n, k := range tree {
			if k == "file" {
				files = append(files, n)
			}
		}
		sort.Strings(files)
		want := map[string]string{} // line -> abs path
		for _, n := range files {
			l := fmt.Sprintf("probe %d %s", probeNo, n)
			f, err := os.OpenFile(abs(n), os.O_WRONLY|os.O_APPEND, 0o644)
			must(err)
			_, err = f.WriteString(l + "\n")
			must(err)
			f.Close()
			if tailed[n] {
				want[l] = abs(n)
			}
		}
		sw.Broadcast()
		await(5*time.Second, func() bool { return sw.Waiting() == len(tailed) })
		await(3*time.Second, func() bool { return col.len() >= seen+len(want) })
		time.Sleep(300 * time.Microsecond)
		got := col.snapshot()[seen:]
		seen += len(got)
		count := map[string]int{}
		for _, l := range got {
			count[l.Line]++
			w, ok := want[l.Line]
			if !ok {
				kind := "untailed-file-delivered"
				rel := strings.TrimPrefix(l.Filename, root+"/")
				if tree[rel] == "dir" {
					kind = "directory-tailed"
				} else if ignRE != nil && ignRE.MatchString(filepath.Base(rel)) {
					kind = "ignored-file-tailed"
				}
				return vstat.Failf(kind, "after step %d (%s): line %q from %s was delivered, but that path should not be tailed (patterns %q ignore %q, tailed set %v)", step, what, l.Line, l.Filename, relPats, ign, keys(tailed))
			}
			if l.Filename != w {
				return vstat.Failf("wrong-source", "after step %d (%s): line %q attributed to %s, written to %s", step, what, l.Line, l.Filename, w)
			}
		}
		for l, p := range want {
			switch {
			case count[l] == 0:
				return vstat.Failf("matching-file-not-tailed", "after step %d (%s): %s matches (patterns %q ignore %q) and exists, but the line appended to it after the poll never arrived", step, what, p, relPats, ign)
			case count[l] > 1:
				return vstat.Failf("line-delivered-twice", "after step %d (%s): line %q of %s arrived %d times: the path is tailed by more than one stream", step, what, l, p, count[l])
			}
		}
		return nil
	}
	settle()
	if f := probe(-1, "start"); f != nil {
		return f
	}
	for si, st := range c.Steps {
		n := c18Names[st.Name%len(c18Names)]
		what := st.Op + " " + n
		switch st.Op {
		case "create":
			if tree[n] != "" || (strings.HasPrefix(n, "sub/") && false) {
				break
			}
			must(os.WriteFile(abs(n), nil, 0o644))
			tree[n] = "file"
		case "delete":
			if tree[n] != "file" {
				break
			}
			must(os.Remove(abs(n)))
			delete(tree, n)
		case "rename":
			to := c18Names[st.To%len(c18Names)]
			what += " -> " + to
			if tree[n] != "file" || tree[to] != "" {
				break
			}
			must(os.Rename(abs(n), abs(to)))
			delete(tree, n)
			tree[to] = "file"
		case "mkdir":
			if tree["d.log"] != "" {
				break
			}
			must(os.Mkdir(abs("d.log"), 0o755))
			must(os.WriteFile(abs("d.log/inner.log"), []byte("x\n"), 0o644))
			tree["d.log"] = "dir"
			tree["d.log/inner.log"] = "file"
		case "rmdir":
			if tree["d.log"] != "dir" {
				break
			}
			must(os.RemoveAll(abs("d.log")))
			delete(tree, "d.log")
			delete(tree, "d.log/inner.log")
		case "dir-to-file":
			// the directory with the log-like name gives way to a regular file of that name
			if tree["d.log"] != "dir" {
				break
			}
			must(os.RemoveAll(abs("d.log")))
			delete(tree, "d.log/inner.log")
			delete(tree, "d.log")
			// let a stream on the file inside the directory see that it is gone
			// before the name is taken by a file (afterwards its stat fails with
			// ENOTDIR, which the stream treats as a transient error, not as removal)
			delete(tailed, "d.log/inner.log")
			sw.Broadcast()
			if !await(5*time.Second, func() bool {
				return sw.Waiting() == len(tailed) && expInt("log_count")-logCount0 == int64(len(tailed))
			}) {
				info.slow++
			}
			must(os.WriteFile(abs("d.log"), nil, 0o644))
			tree["d.log"] = "file"
		case "delete-recreate":
			// a tailed file is deleted, its stream notices, and a new file of the
			// same name appears before the next pattern poll
			if tree[n] != "file" {
				break
			}
			must(os.Remove(abs(n)))
			delete(tree, n)
			delete(tailed, n)
			sw.Broadcast()
			if !await(5*time.Second, func() bool {
				return sw.Waiting() == len(tailed) && expInt("log_count")-logCount0 == int64(len(tailed))
			}) {
				info.slow++
			}
			must(os.WriteFile(abs(n), nil, 0o644))
			tree[n] = "file"
		case "replace-unseen":
			// a tailed file is replaced by a new one of the same name while its
			// stream sleeps; the pattern pollers look after the removal and again
			// after the re-creation. The path stays tailed, by one stream.
			if tree[n] != "file" || !tailed[n] {
				break
			}
			must(os.Remove(abs(n)))
			pw.Broadcast()
			await(5*time.Second, func() bool { return pw.Waiting() == len(pats) })
			must(os.WriteFile(abs(n), nil, 0o644))
			pw.Broadcast()
			await(5*time.Second, func() bool { return pw.Waiting() == len(pats) })
		case "mknull":
			// a matching name that is not a regular file (a symlink to a
			// character device): never tailed, and no obstacle for the others
			if tree["0null.log"] != "" {
				break
			}
			must(os.Symlink("/dev/null", abs("0null.log")))
			tree["0null.log"] = "special"
		case "rmnull":
			if tree["0null.log"] == "" {
				break
			}
			must(os.Remove(abs("0null.log")))
			delete(tree, "0null.log")
		case "poll":
		}
		slow0 := info.slow
		settle()
		if info.slow > slow0 {
			info.slowOps = append(info.slowOps, st.Op)
		}
		if f := probe(si, what); f != nil {
			return f
		}
		// repeated polls must not add streams
		if st.Op == "poll" {
			settle()
			if f := probe(si, what+" (again)"); f != nil {
				return f
			}
		}
	}
	cancel()
	select {
	case <-col.done:
	case <-time.After(10 * time.Second):
		return vstat.Failf("tailer-does-not-stop", "line channel not closed within 10 s of cancellation")
	}
	wg.Wait()
	return nil
}

func keys(m map[string]bool) []string {
	var ks []string
	for k := range m {
		ks = append(ks, k)
	}
	sort.Strings(ks)
	return ks
}

func c18RunRaw(raw json.RawMessage) *vstat.Failure {
	c, err := vstat.JSON[c18Case](raw)
	if err != nil || len(c.Patterns) == 0 {
		return vstat.Failf("bad-replay", "%v", err)
	}
	f, _ := runC18(c)
	return f
}

func TestC18(t *testing.T) {
	st := vstat.New("C18", "histories on a real directory tree (files a.log b.log c.log ab.log x.log.gz note.txt sub/c.log sub/d.log, a directory named d.log) with 1-3 overlapping glob patterns (absolute, and relative resolved against the working directory) and an optional ignore regex: create, delete, rename (matching <-> non-matching names), mkdir/rmdir of the log-named directory, idle polls; after every step (pattern poll + stream wake barriers) a unique line is appended to EVERY regular file of the tree and must arrive exactly once, attributed to its path, for the model's tailed set and never for the others. non-trivial = a file matched by >= 2 patterns, or a deleted path re-created and tailed again; distinct by case")
	st.Assumptions = []string{"glob matching of the model is a 30-line matcher of its own (*, [set], literal; per path component)", "a file is tailed from the next pattern poll after it exists; one tailer at a time (working directory is process-global)"}
	st.Run(t, c18RunRaw, func() {
		ops := []string{"create", "create", "create", "delete", "delete-recreate", "replace-unseen", "rename", "rename", "mkdir", "rmdir", "dir-to-file", "mknull", "rmnull", "poll"}
		st.Check(t, func(rt *rapid.T) {
			var c c18Case
			defer st.Guard(func() any { return c })
			np := rapid.IntRange(1, 3).Draw(rt, "npat")
			for i := 0; i < np; i++ {
				c.Patterns = append(c.Patterns, rapid.IntRange(0, len(c18Patterns)-1).Draw(rt, "pat"))
			}
			c.Ignore = rapid.IntRange(0, len(c18Ignores)-1).Draw(rt, "ign")
			ni := rapid.IntRange(0, 5).Draw(rt, "ninit")
			for i := 0; i < ni; i++ {
				c.Init = append(c.Init, rapid.IntRange(0, len(c18Names)-1).Draw(rt, "init"))
			}
			c.InitDir = rapid.IntRange(0, 3).Draw(rt, "initdir") == 0
			n := rapid.IntRange(1, vstat.Scale(10, 16)).Draw(rt, "nsteps")
			for i := 0; i < n; i++ {
				c.Steps = append(c.Steps, c18Step{Op: rapid.SampledFrom(ops).Draw(rt, "op"), Name: rapid.IntRange(0, len(c18Names)-1).Draw(rt, "name"), To: rapid.IntRange(0, len(c18Names)-1).Draw(rt, "to")})
			}
			st.SkipShrink(rt, c)
			f, info := runC18(c)
			st.Eval()
			for _, s := range c.Steps {
				if s.Op == "mknull" {
					st.Class("history-with-untailable-matching-entry")
					break
				}
			}
			if info.overlap {
				st.Class("file-matched-by-several-patterns")
			}
			if info.recreated {
				st.Class("deleted-path-recreated-and-tailed-again")
			}
			if info.slow > 0 {
				st.ClassN("barrier-deadline-hit", info.slow)
				for _, o := range info.slowOps {
					st.Class("barrier-deadline-hit-after:" + o)
				}
			}
			if ig := c18Ignores[c.Ignore%len(c18Ignores)]; ig != "" {
				st.Class("with-ignore-regex")
			}
			if info.overlap || info.recreated {
				b, _ := json.Marshal(c)
				st.NonTrivial(string(b), c)
			}
			st.Report(rt, f, c)
		})
	})
}
