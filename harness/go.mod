module github.com/google/mtail/verif

go 1.23

toolchain go1.23.5

require (
	github.com/google/mtail v0.0.0
	github.com/prometheus/client_golang v1.20.4
	github.com/prometheus/client_model v0.6.1
	github.com/prometheus/common v0.60.0
	pgregory.net/rapid v1.3.0
)

require (
	github.com/beorn7/perks v1.0.1 // indirect
	github.com/cespare/xxhash/v2 v2.3.0 // indirect
	github.com/golang/glog v1.2.2 // indirect
	github.com/golang/groupcache v0.0.0-20210331224755-41bb18bfe9da // indirect
	github.com/munnerz/goautoneg v0.0.0-20191010083416-a7dc8b61c822 // indirect
	github.com/pkg/errors v0.9.1 // indirect
	github.com/prometheus/procfs v0.15.1 // indirect
	golang.org/x/sys v0.26.0 // indirect
	google.golang.org/protobuf v1.34.2 // indirect
)

replace github.com/google/mtail => /repo
