module github.com/google/mtail/verif

go 1.23

toolchain go1.23.5

require (
	github.com/google/mtail v0.0.0
	pgregory.net/rapid v1.3.0
)

require (
	github.com/golang/glog v1.2.2 // indirect
	github.com/pkg/errors v0.9.1 // indirect
)

replace github.com/google/mtail => /repo
