module github.com/google/mtail/verif

go 1.23

toolchain go1.23.5

require (
	github.com/google/mtail v0.0.0
	github.com/prometheus/client_golang v1.20.4
	github.com/prometheus/client_model v0.6.1
	github.com/prometheus/common v0.60.0
	pgregory.net/rapid v1.3.0
)

require (
	contrib.go.opencensus.io/exporter/jaeger v0.2.1 // indirect
	github.com/beorn7/perks v1.0.1 // indirect
	github.com/cespare/xxhash/v2 v2.3.0 // indirect
	github.com/golang/glog v1.2.2 // indirect
	github.com/golang/groupcache v0.0.0-20210331224755-41bb18bfe9da // indirect
	github.com/golang/protobuf v1.5.3 // indirect
	github.com/google/go-cmp v0.6.0 // indirect
	github.com/klauspost/compress v1.17.9 // indirect
	github.com/munnerz/goautoneg v0.0.0-20191010083416-a7dc8b61c822 // indirect
	github.com/pkg/errors v0.9.1 // indirect
	github.com/prometheus/procfs v0.15.1 // indirect
	github.com/uber/jaeger-client-go v2.25.0+incompatible // indirect
	go.opencensus.io v0.24.0 // indirect
	golang.org/x/sync v0.7.0 // indirect
	golang.org/x/sys v0.26.0 // indirect
	google.golang.org/api v0.105.0 // indirect
	google.golang.org/genproto v0.0.0-20230410155749-daa745c078e1 // indirect
	google.golang.org/grpc v1.56.3 // indirect
	google.golang.org/protobuf v1.34.2 // indirect
)

replace github.com/google/mtail => /repo
