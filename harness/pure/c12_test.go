package pure

// C12 — No export attempt can leave metrics locked or stall processing.

import (
	"context"
	"encoding/json"
	"errors"
	"expvar"
	"fmt"
	"math"
	"net/http"
	"net/http/httptest"
	"runtime"
	"strings"
	"sync"
	"testing"
	"time"

	"github.com/google/mtail/internal/exporter"
	"github.com/google/mtail/internal/metrics"
	"github.com/google/mtail/verif/hx"
	"github.com/google/mtail/verif/vstat"
	"pgregory.net/rapid"
)

type c12Attempt struct {
	Path  string `json:"path"`  // prom | push:graphite | push:statsd | push:collectd | sock:graphite | sock:statsd | sock:collectd | varz | graphite | json
	Fault string `json:"fault"` // none | badname | dupkey | progkey | badvalue | write-error | cancel | cancel-before | cancel-while-waiting | nan | dial-refused | peer-closes | peer-resets | peer-stalls | no-listener
	MI    int    `json:"mi"`    // metric index (prom / json faults)
	LI    int    `json:"li"`    // label set index
	K     int    `json:"k"`     // failing / cancelling write number (1-based)
}

type c12Case struct {
	Store   storeCase   `json:"store"`
	Attempt *c12Attempt `json:"attempt,omitempty"` // nil: enumerate every attempt for this store
}

// faultWriter fails (and/or cancels a context) at the k-th write.
type faultWriter struct {
	n        int
	failAt   int
	cancel   context.CancelFunc
	cancelAt int
	hit      bool
	hdr      http.Header
}

func (w *faultWriter) Header() http.Header {
	if w.hdr == nil {
		w.hdr = http.Header{}
	}
	return w.hdr
}
func (w *faultWriter) WriteHeader(int) {}
func (w *faultWriter) Write(p []byte) (int, error) {
	w.n++
	if w.cancel != nil && w.cancelAt > 0 && w.n == w.cancelAt {
		w.hit = true
		w.cancel()
	}
	if w.failAt > 0 && w.n >= w.failAt {
		w.hit = true
		return 0, errors.New("injected write failure")
	}
	return len(p), nil
}

func emitters() int {
	buf := make([]byte, 1<<16)
	for {
		n := runtime.Stack(buf, true)
		if n < len(buf) {
			buf = buf[:n]
			break
		}
		buf = make([]byte, 2*len(buf))
	}
	return strings.Count(string(buf), "metrics.(*Metric).EmitLabelSets")
}

// c12Enumerate lists every attempt for a store shape.
func c12Enumerate(c *storeCase) []c12Attempt {
	var out []c12Attempt
	out = append(out, c12Attempt{Path: "prom", Fault: "none"})
	for mi := range c.Metrics {
		sm := &c.Metrics[mi]
		if sm.kind() == metrics.Text {
			continue
		}
		out = append(out, c12Attempt{Path: "prom", Fault: "badname", MI: mi})
		if len(sm.Keys) > 0 {
			out = append(out, c12Attempt{Path: "prom", Fault: "dupkey", MI: mi})
			if !c.OmitProg {
				out = append(out, c12Attempt{Path: "prom", Fault: "progkey", MI: mi})
			}
			for li := range sm.LVs {
				out = append(out, c12Attempt{Path: "prom", Fault: "badvalue", MI: mi, LI: li})
			}
		}
		if sm.typ() == metrics.Float {
			for li := range sm.LVs {
				out = append(out, c12Attempt{Path: "json", Fault: "nan", MI: mi, LI: li})
			}
		}
	}
	out = append(out, c12Attempt{Path: "json", Fault: "none"})
	records := 0
	for mi := range c.Metrics {
		if c.Metrics[mi].kind() != metrics.Text {
			records += len(c.Metrics[mi].LVs)
		}
	}
	for _, f := range []string{"graphite", "statsd", "collectd"} {
		out = append(out, c12Attempt{Path: "push:" + f, Fault: "none"})
		for k := 1; k <= records+1; k++ {
			out = append(out, c12Attempt{Path: "push:" + f, Fault: "write-error", K: k})
		}
	}
	// the real push path: PushMetrics against a peer of each behaviour
	for _, f := range []string{"graphite", "collectd", "statsd"} {
		for _, fault := range c12SockFaults(f) {
			out = append(out, c12Attempt{Path: "sock:" + f, Fault: fault})
		}
	}
	all := 0
	for mi := range c.Metrics {
		all += len(c.Metrics[mi].LVs)
	}
	for _, h := range []string{"varz", "graphite"} {
		out = append(out, c12Attempt{Path: h, Fault: "none"}, c12Attempt{Path: h, Fault: "cancel-before"})
		// the client gives up while the handler waits for a metric that a
		// program holds locked
		for mi := range c.Metrics {
			out = append(out, c12Attempt{Path: h, Fault: "cancel-while-waiting", MI: mi})
		}
		for k := 1; k <= all+1; k++ {
			out = append(out, c12Attempt{Path: h, Fault: "cancel", K: k}, c12Attempt{Path: h, Fault: "write-error", K: k})
		}
	}
	return out
}

func runC12Attempt(base storeCase, a c12Attempt) (f *vstat.Failure, hit bool) {
	// apply the fault to a copy of the store description
	b, _ := json.Marshal(base)
	var c storeCase
	_ = json.Unmarshal(b, &c)
	if a.MI < len(c.Metrics) {
		sm := &c.Metrics[a.MI]
		switch a.Fault {
		case "badname":
			sm.Name = "9 bad name"
		case "dupkey":
			sm.Keys = append(sm.Keys, sm.Keys[0])
			for i := range sm.LVs {
				sm.LVs[i].Labels = append(sm.LVs[i].Labels, "dup")
			}
		case "progkey":
			sm.Keys[0] = "prog"
		case "badvalue":
			if a.LI < len(sm.LVs) {
				sm.LVs[a.LI].Labels[0] = vstat.Q("bad\xffvalue")
			}
		case "nan":
			if a.LI < len(sm.LVs) {
				sm.LVs[a.LI].F = c21F(math.NaN())
			}
		}
	}
	store := metrics.NewStore()
	var opts []exporter.Option
	if c.OmitProg {
		opts = append(opts, exporter.OmitProgLabel())
	}
	var peer *c12Peer
	if strings.HasPrefix(a.Path, "sock:") {
		var perr error
		peer, perr = newC12Peer(strings.TrimPrefix(a.Path, "sock:"), a.Fault)
		if perr != nil {
			return vstat.Failf("harness", "peer: %v", perr), false
		}
		defer peer.close()
		restore := c12SetPushFlags(peer.format, peer.addr)
		defer restore()
	}
	sc, err := hx.NewScraper(store, opts...)
	if err != nil {
		return vstat.Failf("harness", "%v", err), false
	}
	defer sc.Close()
	ms, err := c.build()
	if err != nil {
		return vstat.Failf("bad-case", "%v", err), false
	}
	for _, m := range ms {
		if err := store.Add(m); err != nil {
			return vstat.Failf("bad-case", "%v", err), false
		}
	}
	if peer != nil && (a.Fault == "peer-stalls" || a.Fault == "peer-resets") {
		bulk := c12Bulk(peer.format, a.Fault)
		if err := store.Add(bulk); err != nil {
			return vstat.Failf("bad-case", "%v", err), false
		}
		ms = append(ms, bulk)
	}
	before := emitters()

	attempt := func() (hit bool, err error) {
		switch {
		case peer != nil:
			// the fault was hit if at least one write of the push failed
			recs := int64(0)
			for _, m := range ms {
				if m.Kind != metrics.Text {
					recs += int64(len(m.LabelValues))
				}
			}
			succ := expvar.Get(peer.format + "_export_success").(*expvar.Int)
			s0 := succ.Value()
			sc.Exp.PushMetrics()
			return a.Fault != "none" && succ.Value()-s0 < recs, nil
		case a.Path == "prom":
			fams, _, gerr, _ := sc.Gather()
			_ = fams
			return a.Fault != "none", gerr
		case strings.HasPrefix(a.Path, "push:"):
			w := &faultWriter{}
			if a.Fault == "write-error" {
				w.failAt = a.K
			}
			err := sc.Exp.VerifWriteSocketMetrics(w, strings.TrimPrefix(a.Path, "push:"))
			return w.hit, err
		case a.Path == "varz" || a.Path == "graphite":
			ctx, cancel := context.WithCancel(context.Background())
			defer cancel()
			w := &faultWriter{}
			switch a.Fault {
			case "cancel-while-waiting":
				if a.MI < len(ms) {
					m := ms[a.MI]
					m.Lock()
					w.hit = true
					go func() {
						time.Sleep(3 * time.Millisecond) // the handler has reached the locked metric
						cancel()
						time.Sleep(time.Millisecond)
						m.Unlock()
					}()
				}
			case "cancel-before":
				cancel()
				w.hit = true
			case "cancel":
				w.cancel, w.cancelAt = cancel, a.K
			case "write-error":
				w.failAt = a.K
			}
			r := httptest.NewRequest("GET", "/"+a.Path, nil).WithContext(ctx)
			if a.Path == "varz" {
				sc.Exp.HandleVarz(w, r)
			} else {
				sc.Exp.HandleGraphite(w, r)
			}
			return w.hit, nil
		case a.Path == "json":
			rec := httptest.NewRecorder()
			sc.Exp.HandleJSON(rec, httptest.NewRequest("GET", "/json", nil))
			return a.Fault == "nan", nil
		}
		return false, fmt.Errorf("unknown path %s", a.Path)
	}
	type res struct {
		hit bool
		err error
	}
	done := make(chan res, 1)
	// line processing goes on while the export runs: writers keep taking the
	// metrics' write locks (GetDatum on existing label sets), so an exporter
	// that can only finish when no writer is waiting shows up as a stall.
	stopWriters := make(chan struct{})
	var writers sync.WaitGroup
	for w := 0; w < 2; w++ {
		writers.Add(1)
		go func() {
			defer writers.Done()
			for {
				for mi, m := range ms {
					select {
					case <-stopWriters:
						return
					default:
					}
					if mi < len(c.Metrics) && len(c.Metrics[mi].LVs) > 0 {
						_, _ = m.GetDatum(vstat.Strs(c.Metrics[mi].LVs[0].Labels)...)
					}
				}
				select {
				case <-stopWriters:
					return
				default:
					runtime.Gosched()
				}
			}
		}()
	}
	go func() {
		h, e := attempt()
		done <- res{h, e}
	}()
	defer func() {
		close(stopWriters)
	}()
	select {
	case r := <-done:
		hit = r.hit
	case <-time.After(20 * time.Second):
		return vstat.Failf("export-hangs:"+a.Path+":"+a.Fault, "export attempt %+v did not return within 20s", a), true
	}
	sigSuffix := a.Path + ":" + a.Fault
	// every metric's write lock can be taken
	for _, m := range ms {
		ok := false
		for dl := time.Now().Add(2 * time.Second); time.Now().Before(dl); time.Sleep(200 * time.Microsecond) {
			if m.TryLock() {
				m.Unlock()
				ok = true
				break
			}
		}
		if !ok {
			return vstat.Failf("metric-left-locked:"+sigSuffix, "after %+v metric %s/%s cannot be write-locked", a, m.Program, m.Name), hit
		}
	}
	// no helper goroutine is left in EmitLabelSets
	leak := true
	for dl := time.Now().Add(2 * time.Second); time.Now().Before(dl); time.Sleep(500 * time.Microsecond) {
		if emitters() <= before {
			leak = false
			break
		}
	}
	if leak {
		return vstat.Failf("emitter-goroutine-left:"+sigSuffix, "after %+v %d goroutine(s) remain in EmitLabelSets (before: %d)", a, emitters(), before), hit
	}
	// subsequent processing and exports complete
	follow := make(chan error, 1)
	go func() {
		for _, m := range ms {
			tuple := make([]string, len(m.Keys))
			for i := range tuple {
				tuple[i] = "after"
			}
			if _, err := m.GetDatum(tuple...); err != nil {
				follow <- err
				return
			}
		}
		// a program (re)load registers metrics, the GC walks the store: both
		// need the store's own lock, which every export path holds while it runs
		if err := store.Add(metrics.NewMetric("after_load", "afterprog", metrics.Counter, metrics.Int)); err != nil {
			follow <- err
			return
		}
		_ = store.Gc()
		_ = sc.Exp.VerifWriteSocketMetrics(&faultWriter{}, "statsd")
		if peer != nil {
			sc.Exp.PushMetrics()
		}
		sc.Exp.HandleVarz(&faultWriter{}, httptest.NewRequest("GET", "/varz", nil))
		_, _, _, _ = sc.Gather()
		follow <- nil
	}()
	select {
	case err := <-follow:
		if err != nil {
			return vstat.Failf("harness", "follow-up GetDatum/Add: %v", err), hit
		}
	case <-time.After(20 * time.Second):
		return vstat.Failf("processing-stalls:"+sigSuffix, "after %+v follow-up processing/exports did not complete", a), hit
	}
	return nil, hit
}

func runC12(c c12Case, st *vstat.Stats) *vstat.Failure {
	attempts := []c12Attempt{}
	if c.Attempt != nil {
		attempts = append(attempts, *c.Attempt)
	} else {
		attempts = c12Enumerate(&c.Store)
	}
	for _, a := range attempts {
		a := a
		var f *vstat.Failure
		var hit bool
		f = vstat.Catch(func() *vstat.Failure {
			var ff *vstat.Failure
			ff, hit = runC12Attempt(c.Store, a)
			return ff
		})
		if st != nil {
			st.Eval()
			st.Class("path:" + a.Path)
			if hit && a.Fault != "none" {
				st.Class("fault-hit:" + a.Fault)
				key, _ := json.Marshal(c12Case{Store: c.Store, Attempt: &a})
				st.NonTrivial(string(key), c12Case{Store: c.Store, Attempt: &a})
			}
		}
		if f != nil {
			if st != nil && st.IsLive("C12-2") && f.Sig == "metric-left-locked:"+a.Path+":write-error" && strings.HasPrefix(a.Path, "push:") {
				st.Excluded("C12-2")
				continue
			}
			f.Msg = fmt.Sprintf("attempt %+v: %s", a, f.Msg)
			return f
		}
	}
	return nil
}

func TestC12(t *testing.T) {
	st := vstat.New("C12", "store shapes of 1-4 metrics x 0-4 label sets; for each shape EVERY export attempt is enumerated: Prometheus gather with each metric made unrepresentable (invalid name, duplicate key, key 'prog') and each label set given a non-UTF-8 value; graphite/statsd/collectd push with the writer failing at each successive write (1..records+1); varz and graphite HTTP handlers with the request cancelled before the first metric / at each write / while the handler waits for a metric that is write-locked and the response writer failing at each write; JSON with each float made NaN; Exporter.PushMetrics over real sockets (graphite/TCP, collectd/unix stream, statsd/UDP) against a peer that refuses, closes at once, resets mid-push, never reads, or reads everything; plus fault-free controls. non-trivial = an attempt whose injected fault was actually hit; distinct by (store, attempt)")
	st.Assumptions = []string{"lock state observed with TryLock polled for 2 s; helper goroutines counted in the goroutine dump", "push path driven through the build-tagged hook VerifWriteSocketMetrics with a scripted writer, and through PushMetrics on real loopback/unix sockets with metric_push_write_deadline=150ms (a socket fault counts as hit when fewer lines were written than the store holds)"}
	runRaw := func(raw json.RawMessage) *vstat.Failure {
		c, err := vstat.JSON[c12Case](raw)
		if err != nil {
			return vstat.Failf("bad-replay", "%v", err)
		}
		return runC12(c, nil)
	}
	st.Run(t, runRaw, func() {
		st.Check(t, func(rt *rapid.T) {
			var c c12Case
			defer st.Guard(func() any { return c })
			c.Store = genStore(rt, storeGenOpts{labelAlpha: []string{"a", "b", "x y", "200"}, maxMetrics: 4, distinctVals: true})
			if len(c.Store.Metrics) == 0 {
				rt.Skip("empty store")
			}
			// keep label sets <= 4 per metric
			for i := range c.Store.Metrics {
				if len(c.Store.Metrics[i].LVs) > 4 {
					c.Store.Metrics[i].LVs = c.Store.Metrics[i].LVs[:4]
				}
			}
			f := runC12(c, st)
			if f != nil {
				// pin the failing attempt for the replay file
				for _, a := range c12Enumerate(&c.Store) {
					a := a
					if strings.Contains(f.Msg, fmt.Sprintf("attempt %+v:", a)) {
						c.Attempt = &a
						break
					}
				}
			}
			st.Report(rt, f, c)
		})
		st.Extra("exhaustive_scope", "for every generated store shape all fault positions of every exporter path are enumerated (the shapes themselves are sampled)")
		st.Exhaustive = true
	})
}
