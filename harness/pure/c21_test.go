package pure

// C21 — Histograms count every observation in exactly one bucket.

import (
	"encoding/json"
	"fmt"
	"math"
	"sort"
	"strconv"
	"strings"
	"testing"
	"time"

	"github.com/google/mtail/internal/metrics"
	"github.com/google/mtail/internal/metrics/datum"
	"github.com/google/mtail/verif/hx"
	"github.com/google/mtail/verif/vstat"
	"pgregory.net/rapid"
)

// c21F is a float that survives JSON (NaN, Inf as strings).
type c21F float64

func (f c21F) MarshalJSON() ([]byte, error) {
	return json.Marshal(strconv.FormatFloat(float64(f), 'g', -1, 64))
}
func (f *c21F) UnmarshalJSON(b []byte) error {
	var s string
	if err := json.Unmarshal(b, &s); err != nil {
		return err
	}
	v, err := strconv.ParseFloat(s, 64)
	*f = c21F(v)
	return err
}

type c21Obs struct {
	V   c21F   `json:"v"`
	Via string `json:"via"` // api | line
	Key string `json:"key,omitempty"`
}

type c21Case struct {
	Bounds []c21F   `json:"bounds"`
	Keyed  bool     `json:"keyed"`
	Obs    []c21Obs `json:"obs"`
	// MidScrape > 0: the exporter is also scraped after that many observations
	// (the same exporter is scraped again at the end)
	MidScrape int `json:"mid_scrape,omitempty"`
	// DupAt > 0: boundary DupAt-1 is written twice in the declaration. Such a
	// declaration may be refused; if it is accepted, every observation still
	// counts in exactly one bucket (the bucket counts add up to the count, and
	// the exported +Inf bucket equals _count)
	DupAt int `json:"dup_at,omitempty"`
	// Reload: after the observations the program is loaded again with this
	// boundary list (same source position) and its metric replaces the old one
	// in the store, as a reload does; then more observations follow
	Reload []c21F `json:"reload,omitempty"`
	// IntPath: the program assigns an integer capture to the histogram (the
	// VM's integer store) instead of float($1); line observations are integers
	IntPath bool `json:"int_path,omitempty"`
}

func c21Lit(f float64) string {
	return strconv.FormatFloat(f, 'f', -1, 64)
}

func c21Text(f float64) string {
	switch {
	case math.IsNaN(f):
		return "NaN"
	case math.IsInf(f, 1):
		return "+Inf"
	case math.IsInf(f, -1):
		return "-Inf"
	}
	return strconv.FormatFloat(f, 'g', -1, 64)
}

type c21Model struct {
	buckets map[float64]uint64
	count   uint64
	sum     float64
}

func runC21(c c21Case, st *vstat.Stats) *vstat.Failure {
	return vstat.CatchBounded(60*time.Second, func() *vstat.Failure { return runC21x(c, st) })
}

// c21Weak checks what holds for any accepted declaration and after any reload:
// per label set the bucket counts add up to the count, which is the number of
// observations made; the export says the same (+Inf bucket = _count).
func c21Weak(m *metrics.Metric, keyed bool, counts map[string]uint64, sc *hx.Scraper, phase string) *vstat.Failure {
	for _, lv := range m.LabelValues {
		key := ""
		if keyed {
			key = lv.Labels[0]
		}
		bd := datum.GetBuckets(lv.Value)
		var total uint64
		for _, cnt := range bd.GetBuckets() {
			total += cnt
		}
		if total != bd.GetCount() {
			return vstat.Failf("buckets-dont-sum-to-count:"+phase, "%s: key %q: bucket counts %v add up to %d, count is %d", phase, key, bd.GetBuckets(), total, bd.GetCount())
		}
		if want, ok := counts[key]; ok && bd.GetCount() != want {
			return vstat.Failf("count:"+phase, "%s: key %q: count %d after %d observations", phase, key, bd.GetCount(), want)
		}
	}
	fams, text, gerr, perr := sc.Gather()
	if gerr != nil || perr != nil {
		return vstat.Failf("scrape-error:"+phase, "%s: gather=%v parse=%v\n%s", phase, gerr, perr, text)
	}
	if fam := fams["h"]; fam != nil {
		for _, pm := range fam.Metric {
			h := pm.GetHistogram()
			if h == nil {
				continue
			}
			inf := h.GetSampleCount()
			var last uint64
			for _, b := range h.Bucket {
				if math.IsInf(b.GetUpperBound(), 1) {
					inf = b.GetCumulativeCount()
				}
				if b.GetCumulativeCount() < last {
					return vstat.Failf("export-cumulative-decreases:"+phase, "%s: %v", phase, pm)
				}
				last = b.GetCumulativeCount()
			}
			if inf != h.GetSampleCount() || last > h.GetSampleCount() {
				return vstat.Failf("export-inf-vs-count:"+phase, "%s: +Inf bucket %d, largest finite bucket %d, _count %d\n%s", phase, inf, last, h.GetSampleCount(), text)
			}
			key := ""
			for _, lp := range pm.Label {
				if lp.GetName() == "k" {
					key = lp.GetValue()
				}
			}
			if want, ok := counts[key]; ok && h.GetSampleCount() != want {
				return vstat.Failf("export-count:"+phase, "%s: key %q exported count %d after %d observations", phase, key, h.GetSampleCount(), want)
			}
		}
	}
	return nil
}

func c21Source(keyed bool, lits []string) string {
	if keyed {
		return "histogram h by k buckets " + strings.Join(lits, ", ") + "\n/^(\\S+) (\\S+)$/ {\n  h[$1] = float($2)\n}\n"
	}
	return "histogram h buckets " + strings.Join(lits, ", ") + "\n/^(\\S+)$/ {\n  h = float($1)\n}\n"
}

// c21Dup: the declaration repeats a boundary.
func c21Dup(c c21Case, st *vstat.Stats) *vstat.Failure {
	var lits []string
	for i, b := range c.Bounds {
		lits = append(lits, c21Lit(float64(b)))
		if i == c.DupAt-1 {
			lits = append(lits, c21Lit(float64(b)))
		}
	}
	name := "c21d.mtail"
	obj, err := hx.Compile(name, c21Source(c.Keyed, lits))
	if err != nil {
		if st != nil {
			st.Class("repeated-boundary-refused")
		}
		return nil
	}
	if st != nil {
		st.Class("repeated-boundary-accepted")
	}
	var m *metrics.Metric
	for _, mm := range obj.Metrics {
		if mm.Name == "h" {
			m = mm
		}
	}
	store := metrics.NewStore()
	sc, err := hx.NewScraper(store)
	if err != nil {
		return vstat.Failf("harness", "%v", err)
	}
	defer sc.Close()
	for _, mm := range obj.Metrics {
		if err := store.Add(mm); err != nil {
			return vstat.Failf("harness", "%v", err)
		}
	}
	v := hx.NewVM(name, obj, false, nil)
	counts := map[string]uint64{}
	for _, o := range c.Obs {
		line, key := c21Text(float64(o.V)), ""
		if c.Keyed {
			key = o.Key
			if key == "" {
				key = "a"
			}
			line = key + " " + line
		}
		hx.Run(v, "f", line)
		counts[key]++
	}
	return c21Weak(m, c.Keyed, counts, sc, "repeated-boundary")
}

func runC21x(c c21Case, st *vstat.Stats) *vstat.Failure {
	if c.DupAt > 0 && c.DupAt <= len(c.Bounds) {
		return c21Dup(c, st)
	}
	var lits []string
	for _, b := range c.Bounds {
		lits = append(lits, c21Lit(float64(b)))
	}
	var src string
	if c.Keyed {
		src = "histogram h by k buckets " + strings.Join(lits, ", ") + "\n/^(\\S+) (\\S+)$/ {\n  h[$1] = float($2)\n}\n"
	} else {
		src = "histogram h buckets " + strings.Join(lits, ", ") + "\n/^(\\S+)$/ {\n  h = float($1)\n}\n"
	}
	if c.IntPath {
		if c.Keyed {
			src = "histogram h by k buckets " + strings.Join(lits, ", ") + "\n/^(\\S+) (?P<v>-?\\d+)$/ {\n  h[$1] = $v\n}\n"
		} else {
			src = "histogram h buckets " + strings.Join(lits, ", ") + "\n/^(?P<v>-?\\d+)$/ {\n  h = $v\n}\n"
		}
	}
	name := "c21.mtail"
	obj, err := hx.Compile(name, src)
	if err != nil {
		return vstat.Failf("compile-rejected", "sorted boundaries %v rejected: %v", lits, err)
	}
	var m *metrics.Metric
	for _, mm := range obj.Metrics {
		if mm.Name == "h" {
			m = mm
		}
	}
	if m == nil {
		return vstat.Failf("no-metric", "compiled object has no metric h")
	}
	v := hx.NewVM(name, obj, false, nil)
	e0 := hx.RuntimeErrors(name)

	// the reference: upper bounds = declared boundaries + Inf
	bounds := make([]float64, 0, len(c.Bounds)+1)
	for _, b := range c.Bounds {
		bounds = append(bounds, float64(b))
	}
	firstNonPositive := bounds[0] <= 0
	legacyLayout := false
	if firstNonPositive && st != nil && st.IsLive("C21-2") {
		// open finding C21-2: a first boundary <= 0 is used as a lower edge only.
		// Keep checking everything else for such declarations against the
		// layout without that bound.
		bounds = bounds[1:]
		legacyLayout = true
		st.Excluded("C21-2")
	}
	bounds = append(bounds, math.Inf(1))
	models := map[string]*c21Model{}
	getModel := func(k string) *c21Model {
		if models[k] == nil {
			models[k] = &c21Model{buckets: map[float64]uint64{}}
		}
		return models[k]
	}
	if !c.Keyed {
		getModel("")
	}
	// the exporter is registered on the empty store, as the server does
	store := metrics.NewStore()
	sc, err := hx.NewScraper(store)
	if err != nil {
		return vstat.Failf("harness", "%v", err)
	}
	defer sc.Close()
	for _, mm := range obj.Metrics {
		if err := store.Add(mm); err != nil {
			return vstat.Failf("harness", "%v", err)
		}
	}
	checkExport := func(phase string) *vstat.Failure {
		f := c21CheckExport(sc, c, models, bounds, phase)
		if f != nil && phase != "final scrape" {
			f.Sig = "mid-scrape:" + f.Sig
		}
		if f != nil && phase == "final scrape" && c.MidScrape > 0 {
			f.Sig = "scrape-after-scrape:" + f.Sig
		}
		if f != nil {
			f.Msg = phase + ": " + f.Msg
		}
		return f
	}
	ts := time.Unix(1700000000, 0)
	for i, o := range c.Obs {
		if c.MidScrape > 0 && i == c.MidScrape {
			if f := checkExport("scrape between observations"); f != nil {
				return f
			}
		}
		key := ""
		if c.Keyed {
			key = o.Key
			if key == "" {
				key = "a"
			}
		}
		val := float64(o.V)
		switch o.Via {
		case "line":
			line := c21Text(val)
			if c.IntPath {
				line = strconv.FormatInt(int64(val), 10)
			}
			if c.Keyed {
				line = key + " " + line
			}
			hx.Run(v, "f", line)
		default:
			var d datum.Datum
			var err error
			if c.Keyed {
				d, err = m.GetDatum(key)
			} else {
				d, err = m.GetDatum()
			}
			if err != nil {
				return vstat.Failf("getdatum-error", "%v", err)
			}
			datum.Observe(d, val, ts)
		}
		mo := getModel(key)
		mo.count++
		mo.sum += val
		placed := false
		for _, b := range bounds {
			if val <= b {
				mo.buckets[b]++
				placed = true
				break
			}
		}
		if !placed { // NaN
			mo.buckets[math.Inf(1)]++
		}
		_ = i
	}
	if d := hx.RuntimeErrors(name) - e0; d != 0 {
		return vstat.Failf("runtime-error", "%d runtime errors: %s", d, v.RuntimeErrorString())
	}
	if len(m.LabelValues) != len(models) {
		return vstat.Failf("labelset-count", "%d label sets, model %d", len(m.LabelValues), len(models))
	}
	for _, lv := range m.LabelValues {
		key := ""
		if c.Keyed {
			key = lv.Labels[0]
		}
		mo := models[key]
		if mo == nil {
			return vstat.Failf("labelset-unknown", "label set %q not in model", lv.Labels)
		}
		bd := datum.GetBuckets(lv.Value)
		got := bd.GetBuckets()
		var gotMax []float64
		for r := range got {
			gotMax = append(gotMax, r.Max)
		}
		sort.Float64s(gotMax)
		if fmt.Sprint(gotMax) != fmt.Sprint(bounds) {
			sig := "upper-bounds"
			if firstNonPositive && !legacyLayout && fmt.Sprint(gotMax) == fmt.Sprint(bounds[1:]) {
				sig = "upper-bounds:first-nonpositive-bound-missing"
			}
			return vstat.Failf(sig, "upper bounds %v, declared %v + Inf", gotMax, c.Bounds)
		}
		var total uint64
		for r, cnt := range got {
			total += cnt
			if cnt != mo.buckets[r.Max] {
				sig := "bucket-count"
				if c21HasNaN(c, key) {
					sig = "bucket-count:nan"
				}
				return vstat.Failf(sig, "key %q bucket le=%v holds %d, model %d (all: %v, model %v)", key, r.Max, cnt, mo.buckets[r.Max], got, mo.buckets)
			}
		}
		if bd.GetCount() != mo.count {
			return vstat.Failf("count", "key %q count %d model %d", key, bd.GetCount(), mo.count)
		}
		if total != mo.count {
			return vstat.Failf("buckets-dont-sum-to-count", "key %q buckets sum to %d, count %d", key, total, mo.count)
		}
		if gs := bd.GetSum(); math.Float64bits(gs) != math.Float64bits(mo.sum) && !(math.IsNaN(gs) && math.IsNaN(mo.sum)) {
			return vstat.Failf("sum", "key %q sum %v model %v", key, gs, mo.sum)
		}
	}
	if f := checkExport("final scrape"); f != nil || len(c.Reload) == 0 {
		return f
	}
	// reload with an edited boundary list: the new metric takes the old one's
	// place in the store, with its label sets
	var lits2 []string
	for _, b := range c.Reload {
		lits2 = append(lits2, c21Lit(float64(b)))
	}
	obj2, err := hx.Compile(name, c21Source(c.Keyed, lits2))
	if err != nil {
		return vstat.Failf("compile-rejected", "sorted boundaries %v rejected: %v", lits2, err)
	}
	var m2 *metrics.Metric
	for _, mm := range obj2.Metrics {
		if err := store.Add(mm); err != nil {
			return vstat.Failf("harness", "reload: %v", err)
		}
		if mm.Name == "h" {
			m2 = mm
		}
	}
	counts := map[string]uint64{}
	for k, mo := range models {
		counts[k] = mo.count
	}
	if f := c21Weak(m2, c.Keyed, counts, sc, "after-reload"); f != nil {
		return f
	}
	v2 := hx.NewVM(name, obj2, false, nil)
	for i, o := range c.Obs {
		if i >= 4 {
			break
		}
		line, key := c21Text(float64(o.V)), ""
		if c.Keyed {
			key = o.Key
			if key == "" {
				key = "a"
			}
			line = key + " " + line
		}
		hx.Run(v2, "f", line)
		counts[key]++
	}
	return c21Weak(m2, c.Keyed, counts, sc, "after-reload-and-more-observations")
}

// c21CheckExport scrapes and compares the histogram series with the model.
func c21CheckExport(sc *hx.Scraper, c c21Case, models map[string]*c21Model, bounds []float64, phase string) *vstat.Failure {
	fams, text, gerr, perr := sc.Gather()
	if gerr != nil || perr != nil {
		return vstat.Failf("scrape-error", "gather=%v parse=%v\n%s", gerr, perr, text)
	}
	fam := fams["h"]
	if len(models) == 0 {
		return nil
	}
	if fam == nil || len(fam.Metric) != len(models) {
		return vstat.Failf("export-missing", "family h: %v, want %d series\n%s", fam, len(models), text)
	}
	for _, pm := range fam.Metric {
		key := ""
		for _, lp := range pm.Label {
			if lp.GetName() == "k" {
				key = lp.GetValue()
			}
		}
		mo := models[key]
		h := pm.GetHistogram()
		if mo == nil || h == nil {
			return vstat.Failf("export-shape", "series %v has no model or is not a histogram", pm)
		}
		var les []float64
		cum := map[float64]uint64{}
		for _, b := range h.Bucket {
			les = append(les, b.GetUpperBound())
			cum[b.GetUpperBound()] = b.GetCumulativeCount()
		}
		if _, ok := cum[math.Inf(1)]; !ok {
			// the text format always carries +Inf; the parser folds it into the count
			les = append(les, math.Inf(1))
			cum[math.Inf(1)] = h.GetSampleCount()
		}
		sort.Float64s(les)
		if fmt.Sprint(les) != fmt.Sprint(bounds) {
			return vstat.Failf("export-upper-bounds", "exported le %v, want %v", les, bounds)
		}
		var run uint64
		for _, b := range bounds {
			run += mo.buckets[b]
			if cum[b] != run {
				sig := "export-cumulative"
				if c21HasNaN(c, key) {
					sig = "export-cumulative:nan"
				}
				return vstat.Failf(sig, "key %q exported le=%v cumulative %d, model %d\n%s", key, b, cum[b], run, text)
			}
		}
		if h.GetSampleCount() != mo.count {
			return vstat.Failf("export-count", "key %q exported count %d model %d", key, h.GetSampleCount(), mo.count)
		}
		if cum[math.Inf(1)] != h.GetSampleCount() {
			return vstat.Failf("export-inf-vs-count", "key %q +Inf bucket %d, count %d", key, cum[math.Inf(1)], h.GetSampleCount())
		}
		if gs := h.GetSampleSum(); gs != mo.sum && !(math.IsNaN(gs) && math.IsNaN(mo.sum)) {
			return vstat.Failf("export-sum", "key %q exported sum %v model %v", key, gs, mo.sum)
		}
	}
	return nil
}

func c21HasNaN(c c21Case, key string) bool {
	for _, o := range c.Obs {
		k := ""
		if c.Keyed {
			k = o.Key
			if k == "" {
				k = "a"
			}
		}
		if k == key && math.IsNaN(float64(o.V)) {
			return true
		}
	}
	return false
}

func TestC21(t *testing.T) {
	st := vstat.New("C21", "histogram declarations with 2-8 strictly increasing boundaries (negative first bound, first bound 0, fractional, large) compiled from source, scalar or keyed; observation sequences at / just below / just above each boundary, far outside, negative, +-Inf, NaN, applied through the datum API and through program lines; one case in eight repeats a boundary in the declaration (refused, or accepted with every observation in exactly one bucket), one in four reloads the program with an edited boundary list (counts survive and stay consistent); non-trivial = at least one observation equal to a boundary and one above every bound; distinct by (boundaries, observations)")
	st.Assumptions = []string{"model: first declared upper bound >= value, else (and NaN) +Inf", "Prometheus text output parsed with expfmt.TextParser"}
	runRaw := func(raw json.RawMessage) *vstat.Failure {
		c, err := vstat.JSON[c21Case](raw)
		if err != nil {
			return vstat.Failf("bad-replay", "%v", err)
		}
		return runC21(c, st)
	}
	st.Run(t, runRaw, func() {
		st.Check(t, func(rt *rapid.T) {
			var c c21Case
			defer st.Guard(func() any { return c })
			n := rapid.IntRange(2, 8).Draw(rt, "nbounds")
			first := rapid.SampledFrom([]float64{-10, -1.5, -1, 0, 0, 0.000001, 0.5, 1, 1, 100}).Draw(rt, "first")
			cur := first
			c.Bounds = append(c.Bounds, c21F(cur))
			for i := 1; i < n; i++ {
				step := rapid.SampledFrom([]float64{0.000001, 0.25, 0.5, 1, 1, 2, 10, 1000000}).Draw(rt, "step")
				next := cur + step
				if !(next > cur) {
					next = math.Nextafter(cur, math.Inf(1))
				}
				// keep literals exactly representable in short decimal form
				next, _ = strconv.ParseFloat(c21Lit(next), 64)
				cur = next
				c.Bounds = append(c.Bounds, c21F(cur))
			}
			c.Keyed = rapid.Bool().Draw(rt, "keyed")
			no := rapid.IntRange(0, 14).Draw(rt, "nobs")
			atBoundary, aboveAll, hasNaN := false, false, false
			for i := 0; i < no; i++ {
				var v float64
				switch rapid.IntRange(0, 9).Draw(rt, "kind") {
				case 0, 1, 2:
					b := float64(c.Bounds[rapid.IntRange(0, n-1).Draw(rt, "bi")])
					v = b
				case 3:
					b := float64(c.Bounds[rapid.IntRange(0, n-1).Draw(rt, "bi")])
					v = math.Nextafter(b, math.Inf(-1))
				case 4:
					b := float64(c.Bounds[rapid.IntRange(0, n-1).Draw(rt, "bi")])
					v = math.Nextafter(b, math.Inf(1))
				case 5:
					v = float64(c.Bounds[n-1]) + rapid.SampledFrom([]float64{1, 1e6, 1e300}).Draw(rt, "far")
				case 6:
					v = rapid.SampledFrom([]float64{-1e9, -1, -0.5, 0, math.Copysign(0, -1)}).Draw(rt, "neg")
				case 7:
					v = math.Inf(rapid.SampledFrom([]int{1, -1}).Draw(rt, "sign"))
				case 8:
					v = math.NaN()
				default:
					v = rapid.Float64Range(-1000, 1e7).Draw(rt, "any")
				}
				for _, b := range c.Bounds {
					if v == float64(b) {
						atBoundary = true
					}
				}
				if v > float64(c.Bounds[n-1]) {
					aboveAll = true
				}
				if math.IsNaN(v) {
					hasNaN = true
				}
				o := c21Obs{V: c21F(v), Via: rapid.SampledFrom([]string{"api", "line"}).Draw(rt, "via")}
				if c.Keyed {
					o.Key = rapid.SampledFrom([]string{"a", "b", "c"}).Draw(rt, "key")
				}
				c.Obs = append(c.Obs, o)
			}
			if hasNaN && st.IsLive("C21-1") {
				// open finding: NaN lands in no bucket. Leave NaN out so the search goes on.
				st.Excluded("C21-1")
				var keep []c21Obs
				for _, o := range c.Obs {
					if !math.IsNaN(float64(o.V)) {
						keep = append(keep, o)
					}
				}
				c.Obs = keep
				hasNaN = false
			}
			if rapid.IntRange(0, 3).Draw(rt, "intpath") == 0 {
				// integer observations through the VM's integer store
				c.IntPath = true
				for i := range c.Obs {
					v := float64(c.Obs[i].V)
					if math.IsNaN(v) || math.IsInf(v, 0) || math.Abs(v) > 1e15 {
						v = 0
					}
					c.Obs[i].V = c21F(math.Round(v))
				}
				st.Class("integer-observations")
			}
			switch rapid.IntRange(0, 7).Draw(rt, "variant") {
			case 0:
				c.DupAt = rapid.IntRange(1, n).Draw(rt, "dupat")
				for i := range c.Obs {
					c.Obs[i].Via = "line"
				}
				st.Class("declaration-repeats-a-boundary")
			case 1, 2:
				// the reloaded declaration drops, adds or moves a boundary
				nb := append([]c21F(nil), c.Bounds...)
				switch rapid.IntRange(0, 2).Draw(rt, "edit") {
				case 0:
					if len(nb) > 2 {
						k := rapid.IntRange(0, len(nb)-1).Draw(rt, "drop")
						nb = append(nb[:k], nb[k+1:]...)
					}
				case 1:
					nb = append(nb, c21F(float64(nb[len(nb)-1])+1))
				default:
					nb = nb[:len(nb)-1]
					if len(nb) < 2 {
						nb = append(nb, c21F(float64(nb[len(nb)-1])+2))
					}
				}
				c.Reload = nb
				st.Class("reload-with-edited-boundaries")
			}
			if len(c.Obs) >= 2 && rapid.Bool().Draw(rt, "midscrape") {
				c.MidScrape = rapid.IntRange(1, len(c.Obs)-1).Draw(rt, "midat")
				st.Class("scraped-between-observations")
			}
			st.Eval()
			if atBoundary && aboveAll {
				b, _ := json.Marshal(c)
				st.NonTrivial(string(b), c)
			}
			if hasNaN {
				st.Class("has-nan")
			}
			if float64(c.Bounds[0]) <= 0 {
				st.Class("first-bound-nonpositive")
			}
			if c.Keyed {
				st.Class("keyed")
			}
			st.Report(rt, runC21(c, st), c)
		})
	})
}
