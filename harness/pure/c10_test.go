package pure

// C10 — Garbage collection removes exactly the expired and over-limit data.

import (
	"encoding/json"
	"fmt"
	"strings"
	"testing"
	"time"

	"github.com/google/mtail/internal/metrics"
	"github.com/google/mtail/internal/metrics/datum"
	"github.com/google/mtail/verif/hx"
	"github.com/google/mtail/verif/vstat"
	"pgregory.net/rapid"
)

type c10Datum struct {
	AgeS   int64 `json:"age_s"`  // last update = now - AgeS seconds (negative: in the future)
	ExpNs  int64 `json:"exp_ns"` // expiry mark in ns; 0 = unmarked
	Val    int64 `json:"val"`
	Bumped bool  `json:"bumped"` // created at an older time, then updated at AgeS (expiry counts from the last update)
	// Remark: the datum was first marked with another duration (24h, or 1h if
	// the final mark is 24h); the last mark governs
	Remark bool `json:"remark,omitempty"`
}

type c10Metric struct {
	Limit int        `json:"limit"`
	Typ   int        `json:"type"` // 0 Int, 1 Float, 2 String
	Data  []c10Datum `json:"data"`
}

type c10Case struct {
	Metrics []c10Metric `json:"metrics"`
	// ViaProgram: the store is filled by a compiled program (declarations with
	// `limit N`, `settime`, assignments, `del ... after D`) fed generated lines,
	// instead of through the metric API (Int gauges only; expiry 1s, 1h or 24h)
	ViaProgram bool `json:"via_program,omitempty"`
	// Later: further rounds on the same store (API-built stores only): some
	// data are updated again (same or new value, new last-update age; a datum
	// removed by an earlier pass is created again, unmarked), then another GC
	// pass runs and is judged like the first
	Later [][]c10Upd `json:"later,omitempty"`
}

type c10Upd struct {
	M    int   `json:"m"`
	J    int   `json:"j"`
	AgeS int64 `json:"age_s"`
	Same bool  `json:"same"` // the value written is the one the datum already holds
}

type c10Snap struct {
	key    string
	timeNs int64
	expiry time.Duration
	val    string
	ptr    datum.Datum
}

func c10Snapshot(m *metrics.Metric) []c10Snap {
	var out []c10Snap
	for _, lv := range m.LabelValues {
		out = append(out, c10Snap{key: fmt.Sprintf("%q", lv.Labels), timeNs: lv.Value.TimeUTC().UnixNano(), expiry: lv.Expiry, val: lv.Value.ValueString(), ptr: lv.Value})
	}
	return out
}

func runC10(c c10Case) *vstat.Failure {
	return vstat.CatchBounded(60*time.Second, func() *vstat.Failure { return runC10x(c) })
}

// c10ViaProgram builds the store by compiling a program and feeding it lines.
func c10ViaProgram(c c10Case, base time.Time) (*metrics.Store, []*metrics.Metric, *vstat.Failure) {
	durs := map[int64]string{int64(time.Second): "1s", int64(time.Hour): "1h", int64(24 * time.Hour): "24h"}
	var sb strings.Builder
	for i, cm := range c.Metrics {
		fmt.Fprintf(&sb, "gauge m%d by k", i)
		if cm.Limit > 0 {
			fmt.Fprintf(&sb, " limit %d", cm.Limit)
		}
		sb.WriteString("\n")
	}
	for i := range c.Metrics {
		fmt.Fprintf(&sb, "/^s%d (?P<k>\\w+) (?P<ts>\\d+) (?P<v>-?\\d+)$/ {\n  settime($ts)\n  m%d[$k] = $v\n}\n", i, i)
		for _, d := range []string{"1s", "1h", "24h"} {
			fmt.Fprintf(&sb, "/^e%d %s (?P<k>\\w+)$/ {\n  del m%d[$k] after %s\n}\n", i, d, i, d)
		}
	}
	obj, err := hx.Compile("prog", sb.String())
	if err != nil {
		return nil, nil, vstat.Failf("compile-rejected", "%v\n%s", err, sb.String())
	}
	v := hx.NewVM("prog", obj, false, nil)
	e0 := hx.RuntimeErrors("prog")
	for i, cm := range c.Metrics {
		for j, cd := range cm.Data {
			ts := base.Unix() - cd.AgeS
			if cd.Bumped {
				hx.Run(v, "f", fmt.Sprintf("s%d l%d %d %d", i, j, ts-360000, cd.Val-1))
			}
			hx.Run(v, "f", fmt.Sprintf("s%d l%d %d %d", i, j, ts, cd.Val))
			if cd.ExpNs != 0 && cd.Remark {
				first := "24h"
				if cd.ExpNs == int64(24*time.Hour) {
					first = "1h"
				}
				hx.Run(v, "f", fmt.Sprintf("e%d %s l%d", i, first, j))
			}
			if cd.ExpNs != 0 {
				exp := cd.ExpNs
				if exp == 1 {
					exp = int64(time.Second)
				}
				hx.Run(v, "f", fmt.Sprintf("e%d %s l%d", i, durs[exp], j))
			}
		}
	}
	if d := hx.RuntimeErrors("prog") - e0; d != 0 {
		return nil, nil, vstat.Failf("runtime-error", "%d runtime errors while filling the store: %s", d, v.RuntimeErrorString())
	}
	s := metrics.NewStore()
	ms := make([]*metrics.Metric, len(c.Metrics))
	for _, m := range obj.Metrics {
		var i int
		if _, err := fmt.Sscanf(m.Name, "m%d", &i); err != nil || i >= len(ms) {
			continue
		}
		if m.Limit != c.Metrics[i].Limit {
			return nil, nil, vstat.Failf("declared-limit", "metric %s declared with limit %d has Limit %d", m.Name, c.Metrics[i].Limit, m.Limit)
		}
		if err := s.Add(m); err != nil {
			return nil, nil, vstat.Failf("bad-case", "%v", err)
		}
		ms[i] = m
	}
	for i, m := range ms {
		if m == nil {
			return nil, nil, vstat.Failf("bad-case", "metric m%d missing from the compiled object", i)
		}
		if len(m.LabelValues) != len(c.Metrics[i].Data) {
			return nil, nil, vstat.Failf("program-did-not-build-the-store", "metric m%d holds %d data, %d were written", i, len(m.LabelValues), len(c.Metrics[i].Data))
		}
	}
	return s, ms, nil
}

func runC10x(c c10Case) *vstat.Failure {
	s := metrics.NewStore()
	base := time.Now()
	var ms []*metrics.Metric
	if c.ViaProgram {
		var f *vstat.Failure
		if s, ms, f = c10ViaProgram(c, base); f != nil {
			return f
		}
	}
	// stamps[i][key]: the time of the last update the harness made (API-built stores)
	stamps := map[int]map[string]int64{}
	vals := map[int]map[string]int64{}
	marks := map[int]map[string]time.Duration{} // the expiry mark in force (API-built stores)
	setDatum := func(typ metrics.Type, d datum.Datum, v int64, ts time.Time) {
		switch typ {
		case metrics.Int:
			datum.SetInt(d, v, ts)
		case metrics.Float:
			datum.SetFloat(d, float64(v)+0.5, ts)
		case metrics.String:
			datum.SetString(d, fmt.Sprint(v), ts)
		}
	}
	c10Key := func(j int) string { return fmt.Sprintf("%q", []string{fmt.Sprintf("l%d", j)}) }
	for i, cm := range c.Metrics {
		if c.ViaProgram {
			break
		}
		typ := []metrics.Type{metrics.Int, metrics.Float, metrics.String}[cm.Typ%3]
		m := metrics.NewMetric(fmt.Sprintf("m%d", i), "prog", metrics.Gauge, typ, "k")
		m.Limit = cm.Limit
		stamps[i], vals[i], marks[i] = map[string]int64{}, map[string]int64{}, map[string]time.Duration{}
		for j, cd := range cm.Data {
			d, err := m.GetDatum(fmt.Sprintf("l%d", j))
			if err != nil {
				return vstat.Failf("bad-case", "%v", err)
			}
			ts := base.Add(-time.Duration(cd.AgeS) * time.Second)
			set := func(ts time.Time) { setDatum(typ, d, cd.Val, ts) }
			stamps[i][c10Key(j)], vals[i][c10Key(j)] = ts.UnixNano(), cd.Val
			if cd.Bumped {
				set(ts.Add(-100 * time.Hour))
			}
			set(ts)
			if cd.ExpNs != 0 && cd.Remark {
				first := 24 * time.Hour
				if time.Duration(cd.ExpNs) == first {
					first = time.Hour
				}
				if err := m.ExpireDatum(first, fmt.Sprintf("l%d", j)); err != nil {
					return vstat.Failf("bad-case", "%v", err)
				}
			}
			if cd.ExpNs != 0 {
				if err := m.ExpireDatum(time.Duration(cd.ExpNs), fmt.Sprintf("l%d", j)); err != nil {
					return vstat.Failf("bad-case", "%v", err)
				}
				marks[i][c10Key(j)] = time.Duration(cd.ExpNs)
			}
		}
		if err := s.Add(m); err != nil {
			return vstat.Failf("bad-case", "%v", err)
		}
		ms = append(ms, m)
	}
	later := c.Later
	if c.ViaProgram {
		later = nil
	}
	for pass := 0; pass <= len(later); pass++ {
		if pass > 0 {
			for _, u := range later[pass-1] {
				if u.M >= len(ms) || u.J >= len(c.Metrics[u.M].Data) {
					continue
				}
				m := ms[u.M]
				if m.FindLabelValueOrNil([]string{fmt.Sprintf("l%d", u.J)}) == nil {
					// removed by an earlier pass: created again, without a mark
					delete(marks[u.M], c10Key(u.J))
				}
				d, err := m.GetDatum(fmt.Sprintf("l%d", u.J))
				if err != nil {
					return vstat.Failf("bad-case", "%v", err)
				}
				v := vals[u.M][c10Key(u.J)]
				if !u.Same {
					v++
				}
				ts := base.Add(-time.Duration(u.AgeS) * time.Second)
				setDatum(m.Type, d, v, ts)
				stamps[u.M][c10Key(u.J)], vals[u.M][c10Key(u.J)] = ts.UnixNano(), v
			}
		}
		before := make([][]c10Snap, len(ms))
		for i, m := range ms {
			before[i] = c10Snapshot(m)
			// a datum's last update is the last one made
			for _, b := range before[i] {
				if want, ok := stamps[i][b.key]; ok && b.timeNs != want {
					return vstat.Failf("update-stamp", "pass %d: metric %d datum %s is stamped %v, its last update was made at %v", pass, i, b.key, time.Unix(0, b.timeNs).UTC(), time.Unix(0, want).UTC())
				}
			}
			if pass > 0 {
				// an update does not touch the mark
				for _, b := range before[i] {
					if want := marks[i][b.key]; b.expiry != want {
						return vstat.Failf("expiry-mark", "pass %d: metric %d datum %s carries expiry %v, the mark in force is %v (it was updated, not re-marked)", pass, i, b.key, b.expiry, want)
					}
				}
				continue
			}
			// the mark in force is the last one set
			for j, cd := range c.Metrics[i].Data {
				want := time.Duration(cd.ExpNs)
				if c.ViaProgram && cd.ExpNs == 1 {
					want = time.Second
				}
				key := c10Key(j)
				for _, b := range before[i] {
					if b.key == key && b.expiry != want {
						return vstat.Failf("expiry-mark", "metric %d datum l%d carries expiry %v, the last mark set was %v (re-marked: %v)", i, j, b.expiry, want, cd.Remark)
					}
				}
			}
		}
		t0 := time.Now()
		if err := s.Gc(); err != nil {
			return vstat.Failf("gc-error", "%v", err)
		}
		t1 := time.Now()
		// the store still holds exactly the same metric objects
		n := 0
		_ = s.Range(func(m *metrics.Metric) error { n++; return nil })
		if n != len(ms) {
			return vstat.Failf("metric-set-changed", "store has %d metrics after GC, had %d", n, len(ms))
		}
		for i, m := range ms {
			if s.FindMetricOrNil(m.Name, m.Program) != m {
				return vstat.Failf("metric-set-changed", "metric %s replaced or gone", m.Name)
			}
			if f := c10Judge(c.Metrics[i].Limit, before[i], c10Snapshot(m), t0, t1); f != nil {
				f.Msg = fmt.Sprintf("pass %d, metric %d (limit %d): %s", pass, i, c.Metrics[i].Limit, f.Msg)
				return f
			}
		}
	}
	return nil
}

// c10Judge is the validity predicate of the statement.
func c10Judge(limit int, before, after []c10Snap, t0, t1 time.Time) *vstat.Failure {
	// survivors: a subsequence of before, untouched
	idx := map[string]int{}
	for i, b := range before {
		idx[b.key] = i
	}
	kept := make([]bool, len(before))
	last := -1
	for _, a := range after {
		i, ok := idx[a.key]
		if !ok {
			return vstat.Failf("invented-datum", "label set %s appeared during GC", a.key)
		}
		if kept[i] {
			return vstat.Failf("duplicated-datum", "label set %s listed twice after GC", a.key)
		}
		if i < last {
			return vstat.Failf("order-changed", "survivors reordered at %s", a.key)
		}
		last = i
		kept[i] = true
		b := before[i]
		if a.timeNs != b.timeNs || a.expiry != b.expiry || a.val != b.val || a.ptr != b.ptr {
			return vstat.Failf("survivor-changed", "label set %s changed by GC: %+v -> %+v", a.key, b, a)
		}
	}
	// expired(d) relative to a GC instant somewhere in [t0,t1]: 1 yes, 0 no, -1 depends on the instant
	expired := func(d c10Snap) int {
		if d.expiry <= 0 {
			return 0
		}
		ts := time.Unix(0, d.timeNs)
		e0 := t0.Sub(ts) > d.expiry
		e1 := t1.Sub(ts) > d.expiry
		switch {
		case e0 && e1:
			return 1
		case !e0 && !e1:
			return 0
		}
		return -1
	}
	var removed []int
	for i := range before {
		if !kept[i] {
			removed = append(removed, i)
		}
	}
	need := 0
	if limit > 0 && len(before) > limit {
		need = len(before) - limit
		if len(after) > limit {
			return vstat.Failf("limit-exceeded", "holds %d after GC, limit %d", len(after), limit)
		}
	}
	if need > len(removed) {
		return vstat.Failf("limit-exceeded", "needed to remove %d for the limit, removed %d", need, len(removed))
	}
	// survivors must not be expired
	for i, k := range kept {
		if k && expired(before[i]) == 1 {
			return vstat.Failf("expired-kept", "label set %s (age %v, expiry %v) survived GC", before[i].key, t0.Sub(time.Unix(0, before[i].timeNs)), before[i].expiry)
		}
	}
	// choose R (|R| = need) among removed: max time(R) <= min time(before - R), every other removed datum expired
	var try func(start int, chosen []int) bool
	try = func(start int, chosen []int) bool {
		if len(chosen) == need {
			inR := map[int]bool{}
			for _, r := range chosen {
				inR[r] = true
			}
			var maxR int64 = -1 << 63
			for r := range inR {
				if before[r].timeNs > maxR {
					maxR = before[r].timeNs
				}
			}
			for i := range before {
				if inR[i] {
					continue
				}
				if need > 0 && before[i].timeNs < maxR {
					return false
				}
				if !kept[i] && expired(before[i]) == 0 {
					return false
				}
			}
			return true
		}
		for k := start; k < len(removed); k++ {
			if try(k+1, append(chosen, removed[k])) {
				return true
			}
		}
		return false
	}
	if !try(0, nil) {
		desc := ""
		for i, b := range before {
			desc += fmt.Sprintf(" [%s age=%v exp=%v kept=%v]", b.key, t0.Sub(time.Unix(0, b.timeNs)).Round(time.Second), b.expiry, kept[i])
		}
		sig := "wrong-removal"
		if need == 0 {
			sig = "unexpired-removed"
		}
		return vstat.Failf(sig, "no valid explanation (remove %d oldest for the limit, then the expired):%s", need, desc)
	}
	return nil
}

func c10RunRaw(raw json.RawMessage) *vstat.Failure {
	c, err := vstat.JSON[c10Case](raw)
	if err != nil {
		return vstat.Failf("bad-replay", "%v", err)
	}
	return runC10(c)
}

func TestC10(t *testing.T) {
	st := vstat.New("C10", "stores of 1-4 metrics with limit in {0..5}, 0-8 data each (now and then one metric with 40-130 data, most of them due to expire) with last-update ages from a small set (ties common, some in the future), expiry marks in {none, 1ns, 1h, 24h}, some data created earlier and updated later (with the value they already hold); Gc(); for API-built stores 0-2 further rounds of updates (same or new value, backdated or fresh) each followed by another Gc(); non-trivial = a metric over its limit that also holds an expiry-marked datum, or ties in time at the limit boundary; distinct by the whole store")
	st.Assumptions = []string{"GC instant T lies in [t0,t1] around the call; ages are >= 10 s away from every expiry boundary", "any tie-break among equally old data is accepted"}
	st.Run(t, c10RunRaw, func() {
		ages := []int64{-100, 0, 10, 10, 100, 3500, 3700, 3700, 7200, 86000, 86800, 200000}
		exps := []int64{0, 0, 1, int64(time.Hour), int64(time.Hour), int64(24 * time.Hour)}
		st.Check(t, func(rt *rapid.T) {
			var c c10Case
			defer st.Guard(func() any { return c })
			nm := rapid.IntRange(1, 4).Draw(rt, "metrics")
			nontriv := false
			for i := 0; i < nm; i++ {
				cm := c10Metric{Limit: rapid.IntRange(0, 5).Draw(rt, "limit"), Typ: rapid.IntRange(0, 2).Draw(rt, "typ")}
				nd := rapid.IntRange(0, 8).Draw(rt, "ndata")
				for j := 0; j < nd; j++ {
					cm.Data = append(cm.Data, c10Datum{
						AgeS:   rapid.SampledFrom(ages).Draw(rt, "age"),
						ExpNs:  rapid.SampledFrom(exps).Draw(rt, "exp"),
						Val:    rapid.Int64Range(-5, 5).Draw(rt, "val"),
						Bumped: rapid.IntRange(0, 3).Draw(rt, "bumped") == 0,
						Remark: rapid.IntRange(0, 3).Draw(rt, "remark") == 0,
					})
				}
				if i == 0 && rapid.IntRange(0, 5).Draw(rt, "big") == 0 {
					// a metric that has grown large (sessions, request ids), most of it
					// due to expire at this pass
					cm.Limit = 0
					nbig := rapid.IntRange(40, 130).Draw(rt, "nbig")
					cm.Data = nil
					for j := 0; j < nbig; j++ {
						d := c10Datum{AgeS: 7200, ExpNs: int64(time.Hour), Val: int64(j % 5)}
						if j%rapid.IntRange(5, 12).Draw(rt, "keepevery") == 0 {
							d.AgeS = 10
						}
						cm.Data = append(cm.Data, d)
					}
					nd = nbig
					st.Class("large-metric-mostly-expired")
				}
				c.Metrics = append(c.Metrics, cm)
				if cm.Limit > 0 && nd > cm.Limit {
					st.Class("over-limit")
					marked := false
					for _, d := range cm.Data {
						if d.ExpNs != 0 {
							marked = true
						}
					}
					// ties at the boundary: the (n-N)th and (n-N+1)th oldest have the same age
					srt := append([]c10Datum(nil), cm.Data...)
					for a := range srt {
						for b := a + 1; b < len(srt); b++ {
							if srt[b].AgeS > srt[a].AgeS {
								srt[a], srt[b] = srt[b], srt[a]
							}
						}
					}
					k := nd - cm.Limit
					tie := srt[k-1].AgeS == srt[k].AgeS
					if marked {
						st.Class("over-limit-with-expiry-mark")
						nontriv = true
					}
					if tie {
						st.Class("tie-at-limit-boundary")
						nontriv = true
					}
				}
			}
			if rapid.IntRange(0, 3).Draw(rt, "viaprogram") == 0 {
				c.ViaProgram = true
				for i := range c.Metrics {
					c.Metrics[i].Typ = 0
				}
				st.Class("store-built-by-compiled-program")
			}
			if !c.ViaProgram {
				np := rapid.SampledFrom([]int{0, 0, 1, 1, 2}).Draw(rt, "later-passes")
				for p := 0; p < np; p++ {
					var ups []c10Upd
					nu := rapid.IntRange(0, 4).Draw(rt, "later-updates")
					for k := 0; k < nu; k++ {
						mi := rapid.IntRange(0, nm-1).Draw(rt, "um")
						if len(c.Metrics[mi].Data) == 0 {
							continue
						}
						ups = append(ups, c10Upd{M: mi, J: rapid.IntRange(0, len(c.Metrics[mi].Data)-1).Draw(rt, "uj"),
							AgeS: rapid.SampledFrom(ages).Draw(rt, "uage"), Same: rapid.Bool().Draw(rt, "same")})
					}
					c.Later = append(c.Later, ups)
				}
				if np > 0 {
					st.Class("further-gc-passes")
				}
			}
			st.Eval()
			if nontriv {
				b, _ := json.Marshal(c)
				st.NonTrivial(string(b), c)
			}
			st.Report(rt, runC10(c), c)
		})
	})
}
