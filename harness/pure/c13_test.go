package pure

// C13 — Prometheus exposition reflects the store exactly.

import (
	"encoding/json"
	"fmt"
	"math"
	"sort"
	"strings"
	"testing"
	"time"

	"github.com/google/mtail/internal/exporter"
	"github.com/google/mtail/internal/metrics"
	"github.com/google/mtail/verif/hx"
	"github.com/google/mtail/verif/vstat"
	dto "github.com/prometheus/client_model/go"
	"pgregory.net/rapid"
)

type c13Sample struct {
	fam    string
	labels string // canonical k="v",...
	typ    dto.MetricType
	val    float64
	hist   bool
	count  uint64
	sum    float64
	cum    map[float64]uint64
	tsMs   int64
	hasTS  bool
}

func canonLabels(pairs map[string]string) string {
	var ks []string
	for k := range pairs {
		ks = append(ks, k)
	}
	sort.Strings(ks)
	var sb strings.Builder
	for _, k := range ks {
		fmt.Fprintf(&sb, "%s=%q,", k, pairs[k])
	}
	return sb.String()
}

func floatSame(a, b float64) bool {
	return a == b || (math.IsNaN(a) && math.IsNaN(b))
}

// c13Expected computes the samples the statement demands.
func c13Expected(c *storeCase) (map[string]*c13Sample, int) {
	exp := map[string]*c13Sample{}
	unrep := 0
	for i := range c.Metrics {
		sm := &c.Metrics[i]
		if sm.kind() == metrics.Text {
			continue
		}
		for j := range sm.LVs {
			lv := &sm.LVs[j]
			if !promRepresentable(sm, lv, c.OmitProg) {
				unrep++
				continue
			}
			pairs := map[string]string{}
			if !c.OmitProg {
				pairs["prog"] = sm.Prog
			}
			for k, key := range sm.Keys {
				pairs[key] = string(lv.Labels[k])
			}
			s := &c13Sample{fam: strings.ReplaceAll(sm.Name, "-", "_"), labels: canonLabels(pairs)}
			switch sm.kind() {
			case metrics.Counter:
				s.typ = dto.MetricType_COUNTER
			case metrics.Gauge, metrics.Timer:
				s.typ = dto.MetricType_GAUGE
			case metrics.Histogram:
				s.typ = dto.MetricType_HISTOGRAM
			}
			switch sm.typ() {
			case metrics.Int:
				s.val = float64(lv.I)
			case metrics.Float:
				s.val = float64(lv.F)
			case metrics.Buckets:
				s.hist = true
				s.cum = map[float64]uint64{}
				bounds := append([]float64{}, func() []float64 {
					var b []float64
					for _, x := range sm.Bounds {
						b = append(b, float64(x))
					}
					return b
				}()...)
				bounds = append(bounds, math.Inf(1))
				per := map[float64]uint64{}
				for _, o := range lv.Obs {
					s.count++
					s.sum += float64(o)
					per[sm.bucketOf(float64(o))]++
				}
				var run uint64
				for _, b := range bounds {
					run += per[b]
					s.cum[b] = run
				}
			}
			if c.EmitTS {
				s.hasTS = true
				s.tsMs = lv.TimeNs / 1e6
			}
			exp[s.fam+"{"+s.labels+"}"] = s
		}
	}
	return exp, unrep
}

func runC13(c storeCase) *vstat.Failure {
	return vstat.CatchBounded(60*time.Second, func() *vstat.Failure { return runC13x(c) })
}

func runC13x(c storeCase) *vstat.Failure {
	store := metrics.NewStore()
	var opts []exporter.Option
	if c.OmitProg {
		opts = append(opts, exporter.OmitProgLabel())
	}
	if c.EmitTS {
		opts = append(opts, exporter.EmitTimestamp())
	}
	sc, err := hx.NewScraper(store, opts...)
	if err != nil {
		return vstat.Failf("harness", "%v", err)
	}
	defer sc.Close()
	ms, err := c.build()
	if err != nil {
		return vstat.Failf("bad-case", "%v", err)
	}
	for _, m := range ms {
		if err := store.Add(m); err != nil {
			return vstat.Failf("bad-case", "store refused %s: %v", m.Name, err)
		}
	}
	if f := c13Compare(sc, &c); f != nil {
		return f
	}
	if c.Phase2 == nil {
		return nil
	}
	// change the store and scrape the same exporter again: the exposition must
	// reflect the store as it is now
	c2, f := c.applyPhase2(store, ms)
	if f != nil {
		return f
	}
	c2.Phase2 = nil
	if f := c13Compare(sc, &c2); f != nil {
		f.Sig = "second-scrape:" + f.Sig
		f.Msg = "after changing the store and scraping the same exporter again: " + f.Msg
		return f
	}
	return nil
}

// c13Compare scrapes and compares the exposition with what the store case justifies.
func c13Compare(sc *hx.Scraper, c *storeCase) *vstat.Failure {
	exp, unrep := c13Expected(c)
	fams, text, gerr, perr := sc.Gather()
	if gerr != nil {
		sig := "scrape-fails"
		if unrep > 0 {
			sig = "scrape-fails:unrepresentable-present"
		}
		return vstat.Failf(sig, "gather error: %v", gerr)
	}
	if perr != nil {
		return vstat.Failf("output-unparseable", "%v\n%s", perr, text)
	}
	got := map[string]*c13Sample{}
	for name, fam := range fams {
		for _, pm := range fam.Metric {
			pairs := map[string]string{}
			for _, lp := range pm.Label {
				if _, dup := pairs[lp.GetName()]; dup {
					return vstat.Failf("duplicate-label-in-output", "family %s series has label %s twice", name, lp.GetName())
				}
				pairs[lp.GetName()] = lp.GetValue()
			}
			s := &c13Sample{fam: name, labels: canonLabels(pairs), typ: fam.GetType()}
			switch {
			case pm.Counter != nil:
				s.val = pm.Counter.GetValue()
			case pm.Gauge != nil:
				s.val = pm.Gauge.GetValue()
			case pm.Untyped != nil:
				s.val = pm.Untyped.GetValue()
			case pm.Histogram != nil:
				s.hist = true
				s.count = pm.Histogram.GetSampleCount()
				s.sum = pm.Histogram.GetSampleSum()
				s.cum = map[float64]uint64{}
				for _, b := range pm.Histogram.Bucket {
					s.cum[b.GetUpperBound()] = b.GetCumulativeCount()
				}
				if _, ok := s.cum[math.Inf(1)]; !ok {
					s.cum[math.Inf(1)] = s.count
				}
			}
			if pm.TimestampMs != nil {
				s.hasTS = true
				s.tsMs = pm.GetTimestampMs()
			}
			key := name + "{" + s.labels + "}"
			if _, dup := got[key]; dup {
				return vstat.Failf("duplicate-series", "series %s appears twice", key)
			}
			got[key] = s
		}
	}
	for key, e := range exp {
		g := got[key]
		if g == nil {
			sig := "sample-missing"
			if unrep > 0 {
				sig = "sample-missing:unrepresentable-present"
			}
			return vstat.Failf(sig, "expected series %s is not in the output (%d unrepresentable label sets in the store)\n%s", key, unrep, text)
		}
		if g.typ != e.typ {
			return vstat.Failf("type", "series %s has TYPE %v want %v", key, g.typ, e.typ)
		}
		if g.hasTS != e.hasTS {
			return vstat.Failf("timestamp-presence", "series %s timestamp present=%v, enabled=%v", key, g.hasTS, e.hasTS)
		}
		if e.hasTS && g.tsMs != e.tsMs {
			return vstat.Failf("timestamp-value", "series %s timestamp %d want %d", key, g.tsMs, e.tsMs)
		}
		if e.hist {
			if !g.hist {
				return vstat.Failf("type", "series %s is not a histogram", key)
			}
			if g.count != e.count || !floatSame(g.sum, e.sum) {
				return vstat.Failf("histogram-count-sum", "series %s count/sum %d/%v want %d/%v", key, g.count, g.sum, e.count, e.sum)
			}
			if len(g.cum) != len(e.cum) {
				return vstat.Failf("histogram-buckets", "series %s buckets %v want %v", key, g.cum, e.cum)
			}
			var prev uint64
			var les []float64
			for le := range g.cum {
				les = append(les, le)
			}
			sort.Float64s(les)
			for _, le := range les {
				if g.cum[le] < prev {
					return vstat.Failf("histogram-not-cumulative", "series %s buckets decrease at le=%v: %v", key, le, g.cum)
				}
				prev = g.cum[le]
				if ec, ok := e.cum[le]; !ok || ec != g.cum[le] {
					return vstat.Failf("histogram-buckets", "series %s le=%v cumulative %d want %d (%v)", key, le, g.cum[le], ec, ok)
				}
			}
			if g.cum[math.Inf(1)] != g.count {
				return vstat.Failf("histogram-inf-vs-count", "series %s +Inf=%d count=%d", key, g.cum[math.Inf(1)], g.count)
			}
		} else if !floatSame(g.val, e.val) {
			return vstat.Failf("value", "series %s value %v want %v", key, g.val, e.val)
		}
	}
	for key := range got {
		if exp[key] == nil {
			return vstat.Failf("unexpected-series", "output has series %s that the store does not justify\n%s", key, text)
		}
	}
	return nil
}

func TestC13(t *testing.T) {
	st := vstat.New("C13", "stores of 0-6 metrics (every kind x type, 0-3 keys, 0-5 label sets; names with hyphens and colons; values incl. extremes and non-finite; label values incl. empty, quotes, backslashes, newlines, UTF-8 and non-UTF-8; names/keys Prometheus cannot represent; histograms with observations; the same name in two programs) x prog label on/off x timestamps on/off; scraped through a registry the exporter was registered in while the store was empty; non-trivial = >= 2 metrics, one of them with >= 2 label sets; distinct by the whole case")
	st.Assumptions = []string{"representability decided by the harness from the legacy Prometheus data model", "text output parsed by expfmt.TextParser (third-party)", "stores in which two exported series would share name and label set are not generated"}
	runRaw := func(raw json.RawMessage) *vstat.Failure {
		c, err := vstat.JSON[storeCase](raw)
		if err != nil {
			return vstat.Failf("bad-replay", "%v", err)
		}
		return runC13(c)
	}
	st.Run(t, runRaw, func() {
		st.Check(t, func(rt *rapid.T) {
			var c storeCase
			defer st.Guard(func() any { return c })
			unrepOK := !st.IsLive("C13-1")
			c = genStore(rt, storeGenOpts{badNames: unrepOK, badValues: unrepOK, labelAlpha: labelPoolProm, nonFinite: true, sharedNames: true, maxMetrics: 6})
			if !unrepOK {
				st.Excluded("C13-1")
			}
			for i := range c.Metrics {
				sm := &c.Metrics[i]
				if sm.typ() == metrics.Buckets && rapid.IntRange(0, 3).Draw(rt, "shufflebuckets") == 0 {
					// a store built through the API may hold a histogram's ranges in any order
					sm.BucketOrder = rapid.Permutation(func() []int {
						ix := make([]int, len(sm.Bounds)+1)
						for k := range ix {
							ix[k] = k
						}
						return ix
					}()).Draw(rt, "bucketorder")
					st.Class("histogram-ranges-stored-out-of-order")
				}
			}
			if genPhase2(rt, &c) {
				st.Class("second-scrape-after-store-change")
				if len(c.Phase2.Rekey)+len(c.Phase2.AddKey) > 0 {
					st.Class("second-scrape-after-key-change")
				}
			}
			st.Eval()
			multi, hist, shared, unrep := false, false, false, false
			names := map[string]int{}
			for i := range c.Metrics {
				sm := &c.Metrics[i]
				if len(sm.LVs) >= 2 {
					multi = true
				}
				if sm.kind() == metrics.Histogram && len(sm.LVs) > 0 {
					hist = true
				}
				names[strings.ReplaceAll(sm.Name, "-", "_")]++
				for j := range sm.LVs {
					if sm.kind() != metrics.Text && !promRepresentable(sm, &sm.LVs[j], c.OmitProg) {
						unrep = true
					}
				}
			}
			for _, n := range names {
				if n > 1 {
					shared = true
				}
			}
			if len(c.Metrics) >= 2 && multi {
				b, _ := json.Marshal(c)
				st.NonTrivial(string(b), c)
			}
			if hist {
				st.Class("has-histogram")
			}
			if shared {
				st.Class("same-name-in-two-programs")
			}
			if unrep {
				st.Class("has-unrepresentable-label-set")
			}
			if c.OmitProg {
				st.Class("omit-prog-label")
			}
			if c.EmitTS {
				st.Class("emit-timestamp")
			}
			st.Report(rt, runC13(c), c)
		})
	})
}
