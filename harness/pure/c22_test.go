package pure

// C22 — Every export format reports each label set's own value.

import (
	"bytes"
	"encoding/json"
	"flag"
	"fmt"
	"github.com/google/mtail/internal/metrics/datum"
	"math"
	"net/http"
	"net/http/httptest"
	"sort"
	"strconv"
	"strings"
	"testing"
	"time"

	"github.com/google/mtail/internal/exporter"
	"github.com/google/mtail/internal/metrics"
	"github.com/google/mtail/verif/hx"
	"github.com/google/mtail/verif/vstat"
	"pgregory.net/rapid"
)

type c22Case struct {
	Store          storeCase `json:"store"`
	GraphitePrefix string    `json:"graphite_prefix"`
	StatsdPrefix   string    `json:"statsd_prefix"`
	CollectdPrefix string    `json:"collectd_prefix"`
	Hostname       string    `json:"hostname"`
	// RealPush: the exporter is configured with all three push targets (peers
	// the harness owns: graphite over TCP, collectd over a unix stream socket,
	// statsd over UDP) and Exporter.PushMetrics is called: every peer must
	// receive its own format's records
	RealPush bool `json:"real_push,omitempty"`
}

// recordWriter keeps every Write as one record.
type recordWriter struct{ recs []string }

func (w *recordWriter) Write(p []byte) (int, error) {
	w.recs = append(w.recs, string(p))
	return len(p), nil
}

func c22Value(sm *sMetric, lv *sLV) string {
	switch sm.typ() {
	case metrics.Int:
		return strconv.FormatInt(lv.I, 10)
	case metrics.Float:
		return fmt.Sprintf("%g", float64(lv.F))
	case metrics.String:
		return string(lv.S)
	case metrics.Buckets:
		sum := 0.0
		for _, o := range lv.Obs {
			sum += float64(o)
		}
		return fmt.Sprintf("%g", sum)
	}
	return "?"
}

func c22Labels(name string, sm *sMetric, lv *sLV, ksep, sep, rep string) string {
	type kv struct{ k, v string }
	var kvs []kv
	for i, k := range sm.Keys {
		kvs = append(kvs, kv{k, string(lv.Labels[i])})
	}
	sort.Slice(kvs, func(i, j int) bool { return kvs[i].k < kvs[j].k })
	r := name
	for _, e := range kvs {
		clean := func(s string) string {
			return strings.ReplaceAll(strings.ReplaceAll(s, ksep, rep), sep, rep)
		}
		r += sep + clean(e.k) + ksep + clean(e.v)
	}
	return r
}

func c22TimeSec(lv *sLV) string { return strconv.FormatInt(lv.TimeNs/1e9, 10) }

// bucketCounts gives per-bucket (non-cumulative) counts keyed by upper bound text.
func c22BucketCounts(sm *sMetric, lv *sLV) map[string]uint64 {
	out := map[string]uint64{}
	var bounds []float64
	for _, b := range sm.Bounds {
		bounds = append(bounds, float64(b))
	}
	bounds = append(bounds, math.Inf(1))
	name := func(b float64) string {
		if math.IsInf(b, 1) {
			return "inf"
		}
		return fmt.Sprintf("%v", b)
	}
	for _, b := range bounds {
		out[name(b)] = 0
	}
	for _, o := range lv.Obs {
		out[name(sm.bucketOf(float64(o)))]++
	}
	return out
}

func sortedCopy(s []string) []string {
	c := append([]string(nil), s...)
	sort.Strings(c)
	return c
}

func diffMultiset(format string, got, want []string) *vstat.Failure {
	g, w := sortedCopy(got), sortedCopy(want)
	if strings.Join(g, "\x00") == strings.Join(w, "\x00") {
		return nil
	}
	gm, wm := map[string]int{}, map[string]int{}
	for _, x := range g {
		gm[x]++
	}
	for _, x := range w {
		wm[x]++
	}
	var missing, extra []string
	for x, n := range wm {
		if gm[x] < n {
			missing = append(missing, x)
		}
	}
	for x, n := range gm {
		if wm[x] < n {
			extra = append(extra, x)
		}
	}
	sort.Strings(missing)
	sort.Strings(extra)
	sig := format + "-records"
	if len(missing) > 0 && len(extra) > 0 && strings.Contains(strings.Join(missing, ""), ".bin_") {
		sig = format + "-records:histogram-buckets"
	}
	return vstat.Failf(sig, "%s output differs: missing %q, unexpected %q", format, missing, extra)
}

func c22LabelOK(c *storeCase, bad string) bool {
	for i := range c.Metrics {
		for _, lv := range c.Metrics[i].LVs {
			for _, l := range lv.Labels {
				if strings.ContainsAny(string(l), bad) {
					return false
				}
			}
		}
	}
	return true
}

func runC22(c c22Case, st *vstat.Stats) *vstat.Failure {
	return vstat.CatchBounded(60*time.Second, func() *vstat.Failure { return runC22x(c, st) })
}

func runC22x(c c22Case, st *vstat.Stats) *vstat.Failure {
	_ = flag.Set("graphite_prefix", c.GraphitePrefix)
	_ = flag.Set("statsd_prefix", c.StatsdPrefix)
	_ = flag.Set("collectd_prefix", c.CollectdPrefix)
	store := metrics.NewStore()
	opts := []exporter.Option{}
	if c.Store.OmitProg {
		opts = append(opts, exporter.OmitProgLabel())
	}
	if c.Hostname != "" {
		opts = append(opts, exporter.Hostname(c.Hostname))
	}
	peers := map[string]*c12Peer{}
	if c.RealPush {
		for _, f := range []string{"graphite", "collectd", "statsd"} {
			p, err := newC12Peer(f, "none")
			if err != nil {
				return vstat.Failf("harness", "peer: %v", err)
			}
			defer p.close()
			peers[f] = p
			_ = flag.Set(c12SockFlag[f], p.addr)
		}
		_ = flag.Set("metric_push_write_deadline", "10s")
	}
	sc, err := hx.NewScraper(store, opts...)
	for _, name := range c12SockFlag {
		_ = flag.Set(name, "")
	}
	if err != nil {
		return vstat.Failf("harness", "%v", err)
	}
	defer sc.Close()
	host := c.Hostname
	if host == "" {
		host = "verifhost"
	}
	ms, err := c.Store.build()
	if err != nil {
		return vstat.Failf("bad-case", "%v", err)
	}
	for _, m := range ms {
		if err := store.Add(m); err != nil {
			return vstat.Failf("bad-case", "%v", err)
		}
	}
	if f := c22CheckAll(sc, &c, host, st); f != nil {
		return f
	}
	if c.RealPush {
		if f := c22RealPush(sc, peers); f != nil {
			return f
		}
	}
	if c.Store.Phase2 == nil {
		return nil
	}
	// change the store and export again through the same exporter
	s2, f := c.Store.applyPhase2(store, ms)
	if f != nil {
		return f
	}
	c2 := c
	c2.Store = s2
	if f := c22CheckAll(sc, &c2, host, st); f != nil {
		f.Sig = "second-export:" + f.Sig
		f.Msg = "after changing the store and exporting again through the same exporter: " + f.Msg
		return f
	}
	return nil
}

func splitLines(s string) []string {
	if s == "" {
		return nil
	}
	return strings.Split(strings.TrimSuffix(s, "\n"), "\n")
}

// c22RealPush: one PushMetrics to three reading peers; each must have received
// exactly the records the push path writes for its format (already compared
// with the model through the hook), nothing of another format, nothing twice.
func c22RealPush(sc *hx.Scraper, peers map[string]*c12Peer) *vstat.Failure {
	want := map[string][]string{}
	for f := range peers {
		w := &recordWriter{}
		if err := sc.Exp.VerifWriteSocketMetrics(w, f); err != nil {
			return vstat.Failf("push-error", "%s: %v", f, err)
		}
		for _, r := range w.recs {
			if f == "statsd" {
				want[f] = append(want[f], r) // one record per datagram
			} else {
				want[f] = append(want[f], splitLines(r)...)
			}
		}
	}
	done := make(chan struct{})
	go func() { sc.Exp.PushMetrics(); close(done) }()
	select {
	case <-done:
	case <-time.After(30 * time.Second):
		return vstat.Failf("push-hangs", "PushMetrics to three reading peers did not return within 30 s")
	}
	for _, f := range []string{"graphite", "collectd", "statsd"} {
		p := peers[f]
		nbytes := 0
		for _, l := range want[f] {
			nbytes += len(l)
		}
		// stream peers: the connection has been read to its end; datagrams: all bytes are in
		for dl := time.Now().Add(5 * time.Second); time.Now().Before(dl); time.Sleep(200 * time.Microsecond) {
			if f == "statsd" && len(p.got()) >= nbytes || f != "statsd" && (p.finished.Load() > 0 || nbytes == 0 && p.accepted.Load() == 0) {
				break
			}
		}
		time.Sleep(300 * time.Microsecond) // anything sent twice would be right behind
		got := splitLines(p.got())
		if f == "statsd" {
			got = p.datagrams()
		}
		if fl := diffMultiset("real-push:"+f, got, want[f]); fl != nil {
			return fl
		}
	}
	return nil
}

// c22CheckAll captures every export format and compares it with the store case.
func c22CheckAll(sc *hx.Scraper, cp *c22Case, host string, st *vstat.Stats) *vstat.Failure {
	c := *cp
	pushable := func(sm *sMetric) bool {
		k := sm.kind()
		return k == metrics.Counter || k == metrics.Gauge || k == metrics.Timer
	}
	nonFinite := false
	for i := range c.Store.Metrics {
		sm := &c.Store.Metrics[i]
		for _, lv := range sm.LVs {
			if sm.typ() == metrics.Float && (math.IsNaN(float64(lv.F)) || math.IsInf(float64(lv.F), 0)) {
				nonFinite = true
			}
			if sm.typ() == metrics.Buckets {
				s := 0.0
				for _, o := range lv.Obs {
					s += float64(o)
				}
				if math.IsNaN(s) || math.IsInf(s, 0) {
					nonFinite = true
				}
			}
		}
	}

	// ---- varz: all metrics
	if c22LabelOK(&c.Store, ",={} \n") {
		var want []string
		for i := range c.Store.Metrics {
			sm := &c.Store.Metrics[i]
			for j := range sm.LVs {
				lv := &sm.LVs[j]
				var s []string
				for k, key := range sm.Keys {
					s = append(s, key+"="+string(lv.Labels[k]))
				}
				sort.Strings(s)
				if !c.Store.OmitProg {
					s = append(s, "prog="+sm.Prog)
				}
				s = append(s, "instance="+host)
				want = append(want, fmt.Sprintf("%s{%s} %s", sm.Name, strings.Join(s, ","), c22Value(sm, lv)))
			}
		}
		rec := httptest.NewRecorder()
		sc.Exp.HandleVarz(rec, httptest.NewRequest("GET", "/varz", nil))
		if rec.Code != 200 {
			return vstat.Failf("varz-status", "HandleVarz answered %d: %s", rec.Code, rec.Body.String())
		}
		body := rec.Body.String()
		if body != "" && !strings.HasSuffix(body, "\n") {
			return vstat.Failf("varz-malformed", "output does not end in a newline")
		}
		got := strings.Split(strings.TrimSuffix(body, "\n"), "\n")
		if body == "" {
			got = nil
		}
		for _, l := range got {
			if !strings.Contains(l, "{") || !strings.Contains(l, "} ") {
				return vstat.Failf("varz-malformed", "line %q is not name{labels} value", l)
			}
		}
		if f := diffMultiset("varz", got, want); f != nil {
			return f
		}
	} else if st != nil {
		st.Class("varz-skipped-label-chars")
	}

	// ---- graphite lines (shared by HTTP handler and push)
	graphiteLines := func(includeText bool) []string {
		var want []string
		for i := range c.Store.Metrics {
			sm := &c.Store.Metrics[i]
			if sm.kind() == metrics.Text && !includeText {
				continue
			}
			for j := range sm.LVs {
				lv := &sm.LVs[j]
				path := c.GraphitePrefix + sm.Prog + "." + c22Labels(sm.Name, sm, lv, ".", ".", "_")
				if sm.kind() == metrics.Histogram {
					for b, n := range c22BucketCounts(sm, lv) {
						want = append(want, fmt.Sprintf("%s.bin_%s %d %s", path, b, n, c22TimeSec(lv)))
					}
					want = append(want, fmt.Sprintf("%s.count %d %s", path, len(lv.Obs), c22TimeSec(lv)))
				}
				want = append(want, fmt.Sprintf("%s %s %s", path, c22Value(sm, lv), c22TimeSec(lv)))
			}
		}
		return want
	}
	graphiteOK := c22LabelOK(&c.Store, " \n")
	if graphiteOK {
		rec := httptest.NewRecorder()
		sc.Exp.HandleGraphite(rec, httptest.NewRequest("GET", "/graphite", nil))
		if rec.Code != 200 {
			return vstat.Failf("graphite-status", "HandleGraphite answered %d", rec.Code)
		}
		got := splitLines(rec.Body.String())
		for _, l := range got {
			if len(strings.Split(l, " ")) != 3 && !strings.Contains(l, "two words") {
				return vstat.Failf("graphite-malformed", "line %q does not have 3 fields", l)
			}
		}
		if f := diffMultiset("graphite", got, graphiteLines(true)); f != nil {
			return f
		}
		w := &recordWriter{}
		if err := sc.Exp.VerifWriteSocketMetrics(w, "graphite"); err != nil {
			return vstat.Failf("graphite-push-error", "%v", err)
		}
		var gotp []string
		nrec := 0
		for _, r := range w.recs {
			nrec++
			gotp = append(gotp, splitLines(r)...)
		}
		if f := diffMultiset("graphite-push", gotp, graphiteLines(false)); f != nil {
			return f
		}
		wantRecs := 0
		for i := range c.Store.Metrics {
			if c.Store.Metrics[i].kind() != metrics.Text {
				wantRecs += len(c.Store.Metrics[i].LVs)
			}
		}
		if nrec != wantRecs {
			return vstat.Failf("graphite-push-record-count", "%d writes for %d label sets", nrec, wantRecs)
		}
	}

	// ---- statsd
	if c22LabelOK(&c.Store, " \n:|") {
		var want []string
		for i := range c.Store.Metrics {
			sm := &c.Store.Metrics[i]
			if !pushable(sm) {
				continue
			}
			t := map[metrics.Kind]string{metrics.Counter: "c", metrics.Gauge: "g", metrics.Timer: "ms"}[sm.kind()]
			for j := range sm.LVs {
				lv := &sm.LVs[j]
				want = append(want, fmt.Sprintf("%s%s.%s:%s|%s", c.StatsdPrefix, sm.Prog, c22Labels(sm.Name, sm, lv, ".", ".", "_"), c22Value(sm, lv), t))
			}
		}
		w := &recordWriter{}
		if err := sc.Exp.VerifWriteSocketMetrics(w, "statsd"); err != nil {
			return vstat.Failf("statsd-push-error", "%v", err)
		}
		var got []string
		for _, r := range w.recs {
			// records of histograms are outside the statement; recognise them by the empty type letter
			if strings.HasSuffix(r, "|") {
				continue
			}
			if strings.Count(r, "|") != 1 || strings.Count(r, ":") < 1 {
				return vstat.Failf("statsd-malformed", "record %q is not name:value|type", r)
			}
			got = append(got, r)
		}
		if f := diffMultiset("statsd", got, want); f != nil {
			return f
		}
	}

	// ---- collectd
	if c22LabelOK(&c.Store, " \n/\"") {
		var want []string
		for i := range c.Store.Metrics {
			sm := &c.Store.Metrics[i]
			if !pushable(sm) {
				continue
			}
			typ := strings.ToLower(sm.kind().String())
			if sm.kind() == metrics.Timer {
				typ = "gauge"
			}
			for j := range sm.LVs {
				lv := &sm.LVs[j]
				want = append(want, fmt.Sprintf("PUTVAL \"%s/%smtail-%s/%s-%s\" interval=%d %s:%s\n", host, c.CollectdPrefix, sm.Prog, typ,
					c22Labels(sm.Name, sm, lv, "-", "-", "_"), 0, c22TimeSec(lv), c22Value(sm, lv)))
			}
		}
		w := &recordWriter{}
		if err := sc.Exp.VerifWriteSocketMetrics(w, "collectd"); err != nil {
			return vstat.Failf("collectd-push-error", "%v", err)
		}
		var got []string
		for _, r := range w.recs {
			if strings.Contains(r, "/histogram-") {
				continue
			}
			if !strings.HasPrefix(r, "PUTVAL \"") || !strings.HasSuffix(r, "\n") || strings.Count(r, "\"") != 2 {
				return vstat.Failf("collectd-malformed", "record %q is not a PUTVAL line", r)
			}
			got = append(got, r)
		}
		if f := diffMultiset("collectd", got, want); f != nil {
			return f
		}
	}

	// ---- JSON
	if nonFinite && st != nil && st.IsLive("C22-2") {
		st.Excluded("C22-2")
		return nil
	}
	rec := httptest.NewRecorder()
	sc.Exp.HandleJSON(rec, httptest.NewRequest("GET", "/json", nil))
	if rec.Code != 200 {
		sig := "json-status"
		if nonFinite {
			sig = "json-status:non-finite-float"
		}
		return vstat.Failf(sig, "HandleJSON answered %d: %s", rec.Code, strings.TrimSpace(rec.Body.String()))
	}
	type jLV struct {
		Labels []string
		Value  map[string]json.RawMessage
	}
	type jMetric struct {
		Name, Program string
		Kind, Type    int
		Keys          []string
		LabelValues   []jLV
	}
	var dec []jMetric
	d := json.NewDecoder(bytes.NewReader(rec.Body.Bytes()))
	d.UseNumber()
	if err := d.Decode(&dec); err != nil {
		return vstat.Failf("json-undecodable", "%v", err)
	}
	var got, want []string
	for _, jm := range dec {
		head := fmt.Sprintf("%s/%s kind=%d type=%d keys=%q", jm.Program, jm.Name, jm.Kind, jm.Type, jm.Keys)
		if len(jm.LabelValues) == 0 {
			got = append(got, head+" <no data>")
		}
		for _, lv := range jm.LabelValues {
			val := string(lv.Value["Value"])
			if metrics.Type(jm.Type) == metrics.Buckets {
				var bs map[string]uint64
				_ = json.Unmarshal(lv.Value["Buckets"], &bs)
				var parts []string
				for k, v := range bs {
					parts = append(parts, fmt.Sprintf("%s=%d", k, v))
				}
				sort.Strings(parts)
				val = fmt.Sprintf("count=%s sum=%s buckets=%s", lv.Value["Count"], lv.Value["Sum"], strings.Join(parts, ","))
			}
			got = append(got, fmt.Sprintf("%s %q = %s @%s", head, lv.Labels, val, lv.Value["Time"]))
		}
	}
	for i := range c.Store.Metrics {
		sm := &c.Store.Metrics[i]
		keys := sm.Keys
		head := fmt.Sprintf("%s/%s kind=%d type=%d keys=%q", sm.Prog, sm.Name, sm.Kind, sm.Type, keys)
		if len(sm.LVs) == 0 {
			want = append(want, head+" <no data>")
		}
		for j := range sm.LVs {
			lv := &sm.LVs[j]
			var val string
			switch sm.typ() {
			case metrics.Int:
				val = strconv.FormatInt(lv.I, 10)
			case metrics.Float:
				b, _ := json.Marshal(float64(lv.F))
				val = string(b)
			case metrics.String:
				b, _ := json.Marshal(string(lv.S))
				val = string(b)
			case metrics.Buckets:
				sum := 0.0
				for _, o := range lv.Obs {
					sum += float64(o)
				}
				sb, _ := json.Marshal(sum)
				var parts []string
				for k, v := range c22BucketCounts(sm, lv) {
					if k == "inf" {
						k = "+Inf"
					}
					parts = append(parts, fmt.Sprintf("%s=%d", k, v))
				}
				sort.Strings(parts)
				val = fmt.Sprintf("count=%d sum=%s buckets=%s", len(lv.Obs), sb, strings.Join(parts, ","))
			}
			var labels []string
			for _, l := range lv.Labels {
				labels = append(labels, string(l))
			}
			want = append(want, fmt.Sprintf("%s %q = %s @%d", head, labels, val, lv.TimeNs))
		}
	}
	return diffMultiset("json", got, want)
}

func TestC22(t *testing.T) {
	st := vstat.New("C22", "stores of 0-5 metrics of every kind/type, 0-3 keys, up to 5 label sets with DISTINCT values and timestamps per label set, label values from a pool without whitespace (formats whose field separators occur in a value are skipped for that store), occasional non-finite floats, histograms with several label sets; random graphite/statsd/collectd prefixes, hostname, prog label on/off; every format's records compared as a multiset with records built by an independent formatter; plus a fixed scenario with a peer that takes 250 ms per record and with two exports overlapping in time; one case in six also pushes over real sockets to three targets at once (each peer must receive its own format's records, once); non-trivial = a metric with >= 2 label sets whose values differ; distinct by the whole case")
	st.Assumptions = []string{"expected records are produced by formatters written in the harness from the observed wire formats; one record per write for the push formats (captured through the build-tagged hook)", "statsd/collectd records of histograms are outside the statement and ignored"}
	runRaw := func(raw json.RawMessage) *vstat.Failure {
		c, err := vstat.JSON[c22Case](raw)
		if err != nil {
			return vstat.Failf("bad-replay", "%v", err)
		}
		return runC22(c, st)
	}
	st.Run(t, runRaw, func() {
		if shard, _ := vstat.Shard(); shard == 0 {
			f := vstat.CatchBounded(120*time.Second, c22Fixed)
			st.Eval()
			st.Class("fixed:slow-peer-and-overlapping-exports")
			if f != nil {
				st.Violate(t, f, nil, "fixed")
				return
			}
		}
		st.Check(t, func(rt *rapid.T) {
			var c c22Case
			defer st.Guard(func() any { return c })
			c.Store = genStore(rt, storeGenOpts{labelAlpha: []string{"a", "b", "GET", "200", "Z9", "é", "a.b", "c-d", "k=v", "x,y", "p:q", "u/v", "{w}", "100%", "a%20b", "%d%s", "%!v"}, maxMetrics: 5, distinctVals: true, nonFinite: true, sharedNames: true})
			// C22 is not about timestamps-on/off of the Prometheus exposition
			c.Store.EmitTS = false
			// text values must not contain whitespace for the line formats
			c.GraphitePrefix = rapid.SampledFrom([]string{"", "gp.", "site1."}).Draw(rt, "gp")
			c.StatsdPrefix = rapid.SampledFrom([]string{"", "sp.", "x-"}).Draw(rt, "sp")
			c.CollectdPrefix = rapid.SampledFrom([]string{"", "cp-", "y_"}).Draw(rt, "cp")
			c.Hostname = rapid.SampledFrom([]string{"", "host1", "h.example.com"}).Draw(rt, "host")
			if st.IsLive("C22-1") {
				// open finding: graphite prints the first label set's buckets for every label set
				for i := range c.Store.Metrics {
					sm := &c.Store.Metrics[i]
					if sm.kind() == metrics.Histogram && len(sm.LVs) > 1 {
						sm.LVs = sm.LVs[:1]
						st.Excluded("C22-1")
					}
				}
			}
			if genPhase2(rt, &c.Store) {
				st.Class("second-export-after-store-change")
			}
			if rapid.IntRange(0, 5).Draw(rt, "realpush") == 0 {
				c.RealPush = true
				st.Class("push-over-real-sockets-to-three-targets")
			}
			st.Eval()
			nt := false
			for i := range c.Store.Metrics {
				sm := &c.Store.Metrics[i]
				if len(sm.LVs) >= 2 {
					nt = true
					if sm.kind() == metrics.Histogram {
						st.Class("histogram-with-several-label-sets")
					}
				}
			}
			if nt {
				b, _ := json.Marshal(c)
				st.NonTrivial(string(b), c)
			}
			st.Report(rt, runC22(c, st), c)
		})
	})
}

// c22Fixed: two situations the generated stores do not produce.
//  1. a peer that takes a quarter of a second over every record, for longer
//     than a second in all: it still gets a record for every label set;
//  2. two exports overlapping in time (the second one starts while the first
//     is inside a Write): each client receives its own format's records.
func c22Fixed() *vstat.Failure {
	store := metrics.NewStore()
	sc, err := hx.NewScraper(store)
	if err != nil {
		return vstat.Failf("harness", "%v", err)
	}
	defer sc.Close()
	m := metrics.NewMetric("slow_total", "fixed.mtail", metrics.Counter, metrics.Int, "k")
	for i := 0; i < 6; i++ {
		d, _ := m.GetDatum(fmt.Sprintf("v%d", i))
		datum.SetInt(d, int64(10+i), time.Unix(1700000000, 0))
	}
	g := metrics.NewMetric("other", "fixed.mtail", metrics.Gauge, metrics.Int)
	d, _ := g.GetDatum()
	datum.SetInt(d, 7, time.Unix(1700000000, 0))
	for _, mm := range []*metrics.Metric{m, g} {
		if err := store.Add(mm); err != nil {
			return vstat.Failf("harness", "%v", err)
		}
	}
	count := func(text string) int { return strings.Count(text, "slow_total") }
	// 1. slow peers
	sw := &c22SlowWriter{d: 250 * time.Millisecond}
	sc.Exp.HandleVarz(sw, httptest.NewRequest("GET", "/varz", nil))
	if n := count(sw.buf.String()); n != 6 {
		return vstat.Failf("slow-peer-misses-records:varz", "a client taking 250 ms per record got %d of 6 label sets of slow_total:\n%s", n, sw.buf.String())
	}
	sw = &c22SlowWriter{d: 250 * time.Millisecond}
	if err := sc.Exp.VerifWriteSocketMetrics(sw, "graphite"); err != nil {
		return vstat.Failf("push-error", "%v", err)
	}
	if n := count(sw.buf.String()); n != 6 {
		return vstat.Failf("slow-peer-misses-records:graphite-push", "a peer taking 250 ms per record got %d of 6 label sets of slow_total:\n%s", n, sw.buf.String())
	}
	// 2. overlapping exports
	seq := func(h func(http.ResponseWriter, *http.Request), path string) string {
		rec := httptest.NewRecorder()
		h(rec, httptest.NewRequest("GET", path, nil))
		return rec.Body.String()
	}
	// metrics come in the store's map order: compare the records as sets
	norm := func(text string) string {
		ls := splitLines(text)
		sort.Strings(ls)
		return strings.Join(ls, "\n")
	}
	wantVarz, wantGraphite := norm(seq(sc.Exp.HandleVarz, "/varz")), norm(seq(sc.Exp.HandleGraphite, "/graphite"))
	for _, first := range []string{"varz", "graphite"} {
		outer := &c22NestingWriter{}
		inner := httptest.NewRecorder()
		if first == "varz" {
			outer.during = func() { sc.Exp.HandleGraphite(inner, httptest.NewRequest("GET", "/graphite", nil)) }
			sc.Exp.HandleVarz(outer, httptest.NewRequest("GET", "/varz", nil))
			if norm(outer.buf.String()) != wantVarz || norm(inner.Body.String()) != wantGraphite {
				return vstat.Failf("overlapping-exports-mixed", "a /graphite request served while a /varz response was being written: /varz client got\n%s\nwant\n%s\n/graphite client got\n%s", outer.buf.String(), wantVarz, inner.Body.String())
			}
		} else {
			outer.during = func() { sc.Exp.HandleVarz(inner, httptest.NewRequest("GET", "/varz", nil)) }
			sc.Exp.HandleGraphite(outer, httptest.NewRequest("GET", "/graphite", nil))
			if norm(outer.buf.String()) != wantGraphite || norm(inner.Body.String()) != wantVarz {
				return vstat.Failf("overlapping-exports-mixed", "a /varz request served while a /graphite response was being written: /graphite client got\n%s\nwant\n%s\n/varz client got\n%s", outer.buf.String(), wantGraphite, inner.Body.String())
			}
		}
	}
	return nil
}

// c22SlowWriter takes d over every write.
type c22SlowWriter struct {
	d   time.Duration
	buf strings.Builder
	hdr http.Header
}

func (w *c22SlowWriter) Header() http.Header {
	if w.hdr == nil {
		w.hdr = http.Header{}
	}
	return w.hdr
}
func (w *c22SlowWriter) WriteHeader(int) {}
func (w *c22SlowWriter) Write(p []byte) (int, error) {
	time.Sleep(w.d)
	w.buf.Write(p)
	return len(p), nil
}

// c22NestingWriter serves another request (during) inside its first Write,
// before it has looked at the bytes it was given.
type c22NestingWriter struct {
	during func()
	done   bool
	buf    strings.Builder
	hdr    http.Header
}

func (w *c22NestingWriter) Header() http.Header {
	if w.hdr == nil {
		w.hdr = http.Header{}
	}
	return w.hdr
}
func (w *c22NestingWriter) WriteHeader(int) {}
func (w *c22NestingWriter) Write(p []byte) (int, error) {
	if !w.done && w.during != nil {
		w.done = true
		w.during()
	}
	w.buf.Write(p)
	return len(p), nil
}
