package pure

// C15 — Line framing is independent of how bytes arrive.

import (
	"context"
	"encoding/json"
	"expvar"
	"fmt"
	"io"
	"strconv"
	"strings"
	"testing"
	"time"

	"github.com/google/mtail/internal/logline"
	"github.com/google/mtail/internal/tailer/logstream"
	"github.com/google/mtail/verif/vstat"
	"pgregory.net/rapid"
)

type c15Case struct {
	Stream vstat.Q `json:"stream"`
	Chunks []int   `json:"chunks"` // sizes of successive reads offered by the source; 0 = empty read
	Buf    int     `json:"buf"`    // LineReader buffer size
	// EOFWithData: the source returns its last bytes together with io.EOF in
	// one Read call (allowed by the io.Reader contract, cf. iotest.DataErrReader)
	EOFWithData bool `json:"eof_with_data,omitempty"`
}

// scriptReader hands out the stream in the scripted pieces (a piece larger
// than the caller's buffer is handed out in buffer-sized parts).
type scriptReader struct {
	data        []byte
	chunks      []int
	ci          int
	reads       int
	eofWithData bool
}

func (r *scriptReader) Read(p []byte) (int, error) {
	n, err := r.read(p)
	if err == nil && r.eofWithData && n > 0 && len(r.data) == 0 {
		return n, io.EOF
	}
	return n, err
}

func (r *scriptReader) read(p []byte) (int, error) {
	r.reads++
	for {
		if len(r.data) == 0 {
			return 0, io.EOF
		}
		if r.ci >= len(r.chunks) {
			// script exhausted: hand out the rest at once
			n := copy(p, r.data)
			r.data = r.data[n:]
			return n, nil
		}
		c := r.chunks[r.ci]
		if c == 0 {
			r.ci++
			return 0, nil
		}
		if c > len(r.data) {
			c = len(r.data)
		}
		n := copy(p, r.data[:c])
		r.data = r.data[n:]
		r.chunks[r.ci] -= n
		if r.chunks[r.ci] == 0 {
			r.ci++
		}
		return n, nil
	}
}

// refSplit is the reference: split at newline, drop one trailing CR of each
// terminated piece, append the unterminated remainder iff non-empty.
func refSplit(s string) []string {
	var out []string
	for {
		i := strings.IndexByte(s, '\n')
		if i < 0 {
			break
		}
		piece := s[:i]
		if strings.HasSuffix(piece, "\r") {
			piece = piece[:len(piece)-1]
		}
		out = append(out, piece)
		s = s[i+1:]
	}
	if len(s) > 0 {
		out = append(out, s)
	}
	return out
}

var c15seq int

func logLinesFor(name string) int64 {
	m, ok := expvar.Get("log_lines_total").(*expvar.Map)
	if !ok || m == nil {
		return 0
	}
	v := m.Get(name)
	if v == nil {
		return 0
	}
	n, _ := strconv.ParseInt(v.String(), 10, 64)
	return n
}

func runC15(c c15Case, countCheck bool) *vstat.Failure {
	return vstat.CatchBounded(60*time.Second, func() *vstat.Failure { return runC15x(c, countCheck) })
}

func runC15x(c c15Case, countCheck bool) *vstat.Failure {
	stream := string(c.Stream)
	want := refSplit(stream)
	ch := make(chan *logline.LogLine, strings.Count(stream, "\n")+2)
	src := "c15"
	if countCheck {
		c15seq++
		src = fmt.Sprintf("c15-%d", c15seq%64)
	}
	before := int64(0)
	if countCheck {
		before = logLinesFor(src)
	}
	r := &scriptReader{data: []byte(stream), chunks: append([]int(nil), c.Chunks...), eofWithData: c.EOFWithData}
	lr := logstream.NewLineReader(src, ch, r, c.Buf, func() {})
	ctx := context.Background()
	total := 0
	for i := 0; ; i++ {
		n, err := lr.ReadAndSend(ctx)
		total += n
		if err == io.EOF {
			break
		}
		if err != nil {
			return vstat.Failf("read-error", "unexpected error %v", err)
		}
		if i > len(stream)+len(c.Chunks)+8 {
			return vstat.Failf("no-progress", "reader did not reach EOF after %d calls", i)
		}
	}
	lr.Finish(ctx)
	close(ch)
	var got []string
	for l := range ch {
		if l.Filename != src {
			return vstat.Failf("wrong-source", "line carries source %q want %q", l.Filename, src)
		}
		got = append(got, l.Line)
	}
	if total != len(stream) {
		return vstat.Failf("byte-count", "ReadAndSend reported %d bytes for a %d byte stream", total, len(stream))
	}
	if len(got) != len(want) {
		return vstat.Failf("line-count", "got %d lines %q want %d lines %q", len(got), got, len(want), want)
	}
	for i := range want {
		if got[i] != want[i] {
			return vstat.Failf("line-content", "line %d: got %q want %q (all got %q want %q)", i, got[i], want[i], got, want)
		}
	}
	if countCheck {
		if d := logLinesFor(src) - before; d != int64(len(want)) {
			return vstat.Failf("line-counter", "log_lines_total[%s] moved by %d for %d lines", src, d, len(want))
		}
	}
	return nil
}

func c15RunRaw(raw json.RawMessage) *vstat.Failure {
	var probe struct {
		Readers []json.RawMessage `json:"readers"`
	}
	if json.Unmarshal(raw, &probe) == nil && len(probe.Readers) > 0 {
		m, err := vstat.JSON[c15Multi](raw)
		if err != nil {
			return vstat.Failf("bad-replay", "%v", err)
		}
		return runC15Multi(m)
	}
	c, err := vstat.JSON[c15Case](raw)
	if err != nil {
		return vstat.Failf("bad-replay", "%v", err)
	}
	if c.Buf <= 0 {
		c.Buf = 1
	}
	return runC15(c, true)
}

// c15Multi is a history over several line readers that are alive at the same
// time (mtail tails many sources at once, each through its own LineReader).
// Bytes arrive at one reader at a time; a reader may be flushed in the middle
// of its life, which is what a file stream does when it notices that its file
// was truncated or replaced before carrying on with the same reader.  Every
// reader must deliver its own bytes, framed, whatever the others are doing.
type c15Multi struct {
	Readers []int      `json:"readers"` // buffer size of each reader
	Steps   []c15MStep `json:"steps"`
}

type c15MStep struct {
	R     int     `json:"r"`
	Data  vstat.Q `json:"data,omitempty"`  // bytes that arrive at reader R, read until the source has no more
	Max   int     `json:"max,omitempty"`   // the source hands out at most this many bytes per read (0: as many as asked)
	Flush bool    `json:"flush,omitempty"` // the owner flushes R (truncation / replacement) and keeps using it
}

type c15MSource struct {
	pending []byte
	max     int
}

func (s *c15MSource) Read(p []byte) (int, error) {
	if len(s.pending) == 0 {
		return 0, io.EOF
	}
	if s.max > 0 && len(p) > s.max {
		p = p[:s.max]
	}
	n := copy(p, s.pending)
	s.pending = s.pending[n:]
	return n, nil
}

func runC15Multi(m c15Multi) *vstat.Failure {
	return vstat.CatchBounded(60*time.Second, func() *vstat.Failure { return runC15MultiX(m) })
}

func runC15MultiX(m c15Multi) *vstat.Failure {
	type rd struct {
		src  *c15MSource
		lr   *logstream.LineReader
		ch   chan *logline.LogLine
		name string
		seg  string   // bytes since the last flush
		want []string // reference lines so far
		fed  string
	}
	ctx := context.Background()
	rs := make([]*rd, len(m.Readers))
	total := 0
	for _, s := range m.Steps {
		total += strings.Count(string(s.Data), "\n") + 1
	}
	open := func(i int) *rd {
		if rs[i] == nil {
			size := m.Readers[i]
			if size <= 0 {
				size = 1
			}
			r := &rd{src: &c15MSource{}, ch: make(chan *logline.LogLine, total+len(m.Steps)+4), name: fmt.Sprintf("c15m-%d", i)}
			r.lr = logstream.NewLineReader(r.name, r.ch, r.src, size, func() {})
			rs[i] = r
		}
		return rs[i]
	}
	for si, s := range m.Steps {
		if s.R < 0 || s.R >= len(m.Readers) {
			continue
		}
		r := open(s.R)
		if len(s.Data) > 0 {
			r.seg += string(s.Data)
			r.fed += string(s.Data)
			r.src.pending = append(r.src.pending, s.Data...)
			r.src.max = s.Max
			for k := 0; ; k++ {
				n, err := r.lr.ReadAndSend(ctx)
				if n == 0 && err == io.EOF {
					break
				}
				if err != nil && err != io.EOF {
					return vstat.Failf("read-error", "step %d: unexpected error %v", si, err)
				}
				if k > len(s.Data)+8 {
					return vstat.Failf("no-progress", "step %d: reader %d did not drain its source after %d calls", si, s.R, k)
				}
			}
		}
		if s.Flush {
			r.lr.Finish(ctx)
			r.want = append(r.want, refSplit(r.seg)...)
			r.seg = ""
		}
	}
	for i, r := range rs {
		if r == nil {
			continue
		}
		r.lr.Finish(ctx)
		r.want = append(r.want, refSplit(r.seg)...)
		close(r.ch)
		var got []string
		for l := range r.ch {
			if l.Filename != r.name {
				return vstat.Failf("wrong-source", "reader %d: line carries source %q want %q", i, l.Filename, r.name)
			}
			got = append(got, l.Line)
		}
		if len(got) != len(r.want) {
			return vstat.Failf("multi-line-count", "reader %d of %d was fed %q: got %d lines %q want %d lines %q", i, len(rs), r.fed, len(got), got, len(r.want), r.want)
		}
		for k := range r.want {
			if got[k] != r.want[k] {
				return vstat.Failf("multi-line-content", "reader %d of %d was fed %q: line %d: got %q want %q", i, len(rs), r.fed, k, got[k], r.want[k])
			}
		}
	}
	return nil
}

// c15NonTrivial implements the stated rule.
func c15Classes(c c15Case) (classes []string) {
	s := string(c.Stream)
	// read boundaries as byte offsets (taking the buffer size into account)
	bounds := map[int]bool{}
	off := 0
	for _, ch := range c.Chunks {
		for ch > 0 && off < len(s) {
			n := ch
			if n > c.Buf {
				n = c.Buf
			}
			if n > len(s)-off {
				n = len(s) - off
			}
			off += n
			ch -= n
			bounds[off] = true
		}
	}
	for off < len(s) {
		n := c.Buf
		if n > len(s)-off {
			n = len(s) - off
		}
		off += n
		bounds[off] = true
	}
	for i := 0; i+1 < len(s); i++ {
		if s[i] == '\r' && s[i+1] == '\n' && bounds[i+1] {
			classes = append(classes, "crlf-split-across-reads")
			break
		}
	}
	for _, l := range strings.Split(s, "\n") {
		if len(l) > c.Buf {
			classes = append(classes, "line-longer-than-buffer")
			break
		}
	}
	for i := 0; i < len(s); i++ {
		if s[i] >= 0xc0 { // lead byte of a multi-byte rune
			need := 1
			if s[i] >= 0xe0 {
				need = 2
			}
			if s[i] >= 0xf0 {
				need = 3
			}
			for k := 1; k <= need && i+k <= len(s); k++ {
				if bounds[i+k] && i+k < len(s) {
					classes = append(classes, "rune-split-across-reads")
					i = len(s)
					break
				}
			}
		}
	}
	return
}

// c15Special are bytes and sequences that text handling elsewhere treats
// specially and that a line reader must pass through untouched: white space,
// NUL, DEL, Ctrl-Z, a byte order mark, other Unicode line separators.
var c15Special = []string{" ", "\t", "\x00", "\x0b", "\x0c", "\x1a", "\x7f", "\xef\xbb\xbf", "\xc2\x85", "\xe2\x80\xa8", "\xc2\xa0"}

var c15Alphabet = []string{"\n", "\r", "a", "b", "\xe4", "\xb8", "\xad", "\xff"}

func TestC15(t *testing.T) {
	st := vstat.New("C15", "byte streams over {LF, CR, a, b, the 3 bytes of U+4E2D separately, 0xff} x every composition into reads (zero-length reads included in the random part) x LineReader buffer sizes; non-trivial = CRLF split across two reads, or a line longer than the buffer, or a multi-byte rune split across reads; distinct by (stream, chunking, buffer size); plus histories over 1-4 readers alive at once, non-trivial there = a reader is flushed while holding a partial line and bytes arrive at one reader while another holds a partial line")
	st.Assumptions = []string{
		"the source is an io.Reader that may return fewer bytes than asked and (0, nil)",
		"reference splitter: split at LF, drop one trailing CR per terminated piece, unterminated remainder delivered iff non-empty",
	}
	st.Run(t, c15RunRaw, func() {
		c15Exhaustive(t, st)
		if t.Failed() {
			return
		}
		st.Check(t, func(rt *rapid.T) {
			var c c15Case
			defer st.Guard(func() any { return c })
			// long-ish random streams with random chunking
			n := rapid.IntRange(0, 400).Draw(rt, "n")
			if rapid.IntRange(0, 19).Draw(rt, "big") == 0 {
				n = rapid.IntRange(400, 70000).Draw(rt, "nbig")
			}
			var sb strings.Builder
			tok := rapid.SampledFrom(append([]string{"\n", "\n", "\n", "\r", "\r\n", "a", "b", "abc", "中", "\xe4", "\xb8\xad", "\xff", "aaaaaaaaaaaaaaaaaaaaaaaaaaaaaaaaaaaaaaaa"}, c15Special...))
			for sb.Len() < n {
				sb.WriteString(tok.Draw(rt, "tok"))
			}
			c.Stream = vstat.Q(sb.String())
			c.Buf = rapid.SampledFrom([]int{1, 2, 3, 4, 5, 6, 7, 8, 64, 4096, 131072}).Draw(rt, "buf")
			c.EOFWithData = rapid.Bool().Draw(rt, "eofWithData")
			maxChunk := rapid.SampledFrom([]int{1, 2, 3, 8, 100, 5000}).Draw(rt, "maxchunk")
			remaining := len(c.Stream)
			for remaining > 0 && len(c.Chunks) < 3000 {
				k := rapid.IntRange(0, maxChunk).Draw(rt, "chunk")
				c.Chunks = append(c.Chunks, k)
				remaining -= k
			}
			st.Eval()
			cl := c15Classes(c)
			for _, k := range cl {
				st.Class("random:" + k)
			}
			for _, sp := range c15Special {
				if strings.HasPrefix(string(c.Stream), sp) {
					st.Class("random:stream-begins-with-a-special-sequence")
				}
				if strings.Contains(string(c.Stream), "\n"+sp+"\n") || strings.HasSuffix(string(c.Stream), "\n"+sp) {
					st.Class("random:line-is-only-a-special-sequence")
				}
			}
			if len(cl) > 0 {
				b, _ := json.Marshal(c)
				st.NonTrivial(string(b), c)
			}
			st.Report(rt, runC15(c, true), c)
		})
		if t.Failed() {
			return
		}
		// several readers alive at once, flushed in mid-life
		st.Check(t, func(rt *rapid.T) {
			var m c15Multi
			defer st.Guard(func() any { return m })
			nr := rapid.IntRange(1, 4).Draw(rt, "readers")
			sizes := rapid.SampledFrom([]int{1, 2, 4, 8, 8, 32, 32, 4096, 131072})
			same := rapid.Bool().Draw(rt, "sameSize")
			for i := 0; i < nr; i++ {
				if same && i > 0 {
					m.Readers = append(m.Readers, m.Readers[0])
				} else {
					m.Readers = append(m.Readers, sizes.Draw(rt, "size"))
				}
			}
			piece := rapid.SampledFrom(append([]string{"tail", "AAAA", "BBBBBB", "c", " done\n", "\n", "\n", "x\r\n", "\r", "one\ntwo", "中", "\xe4", "\xb8\xad\n", "0123456789abcdef0123456789abcdef0123456789"}, c15Special...))
			ns := rapid.IntRange(1, 24).Draw(rt, "steps")
			flushes, partialAtFlush, interleaved := 0, false, false
			open := map[int]string{} // unterminated bytes a reader is holding
			for i := 0; i < ns; i++ {
				s := c15MStep{R: rapid.IntRange(0, nr-1).Draw(rt, "r")}
				switch rapid.IntRange(0, 5).Draw(rt, "kind") {
				case 0:
					s.Flush = true
				case 1:
					s.Flush = true
					fallthrough
				default:
					var sb strings.Builder
					for k := rapid.IntRange(1, 3).Draw(rt, "pieces"); k > 0; k-- {
						sb.WriteString(piece.Draw(rt, "piece"))
					}
					s.Data = vstat.Q(sb.String())
					s.Max = rapid.SampledFrom([]int{0, 0, 1, 3}).Draw(rt, "max")
				}
				if len(s.Data) > 0 {
					for r, held := range open {
						if r != s.R && held != "" {
							interleaved = true
						}
					}
					d := open[s.R] + string(s.Data)
					if j := strings.LastIndexByte(d, '\n'); j >= 0 {
						d = d[j+1:]
					}
					open[s.R] = d
				}
				if s.Flush {
					flushes++
					if open[s.R] != "" {
						partialAtFlush = true
					}
					open[s.R] = ""
				}
				m.Steps = append(m.Steps, s)
			}
			st.Eval()
			if nr > 1 {
				st.Class("multi:several-readers")
			}
			if flushes > 0 {
				st.Class("multi:flushed-in-mid-life")
			}
			if partialAtFlush {
				st.Class("multi:flush-delivers-a-partial-line")
			}
			if interleaved {
				st.Class("multi:bytes-arrive-while-another-reader-holds-a-partial-line")
			}
			if interleaved && partialAtFlush {
				b, _ := json.Marshal(m)
				st.NonTrivial(string(b), m)
			}
			st.Report(rt, runC15Multi(m), m)
		})
	})
}

// c15Exhaustive enumerates every stream up to a length over a 4-symbol
// alphabet, every composition of it into reads, and several buffer sizes.
func c15Exhaustive(t *testing.T, st *vstat.Stats) {
	maxLen := vstat.Scale(5, 7)
	alpha := []byte{'\n', '\r', 'a', 0xe4}
	sizes := []int{1, 2, 3, 64, -1, -2, -3, -64} // negative: same size, last bytes delivered together with io.EOF
	shard, shards := vstat.Shard()
	idx := 0
	var rec func(prefix []byte)
	run := func(s []byte) {
		n := len(s)
		comps := 1
		if n > 0 {
			comps = 1 << (n - 1)
		}
		for mask := 0; mask < comps; mask++ {
			var chunks []int
			cur := 1
			for i := 0; i < n-1; i++ {
				if mask&(1<<i) != 0 {
					chunks = append(chunks, cur)
					cur = 1
				} else {
					cur++
				}
			}
			if n > 0 {
				chunks = append(chunks, cur)
			}
			for _, sz := range sizes {
				size, ewd := sz, false
				if sz < 0 {
					size, ewd = -sz, true
				}
				c := c15Case{Stream: vstat.Q(s), Chunks: chunks, Buf: size, EOFWithData: ewd}
				st.Eval()
				cl := c15Classes(c)
				if len(cl) > 0 {
					st.NonTrivialDistinct(1, c)
					for _, k := range cl {
						st.Class("exhaustive:" + k)
					}
				}
				if f := runC15(c, false); f != nil {
					st.Violate(t, f, c, "exhaustive")
					if t.Failed() {
						return
					}
				}
			}
		}
	}
	rec = func(prefix []byte) {
		if t.Failed() {
			return
		}
		idx++
		if idx%shards == shard {
			run(prefix)
		}
		if len(prefix) == maxLen {
			return
		}
		for _, a := range alpha {
			rec(append(append([]byte(nil), prefix...), a))
		}
	}
	rec(nil)
	st.Extra("exhaustive_scope", fmt.Sprintf("all streams of length <= %d over {LF, CR, 'a', 0xe4} x all compositions into reads x buffer sizes {1,2,3,64} x {EOF on its own, EOF together with the last bytes}%.0v (partitioned over %d shard(s))", maxLen, sizes, shards))
	st.Exhaustive = true
}
