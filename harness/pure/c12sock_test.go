package pure

// C12, real-socket push path: Exporter.PushMetrics against a peer the harness
// owns (TCP for graphite, unix stream for collectd, UDP for statsd) that
// refuses the connection, closes it at once, resets it, never reads, or reads
// everything.

import (
	"context"
	"flag"
	"fmt"
	"io"
	"net"
	"os"
	"path/filepath"
	"sync"
	"sync/atomic"
	"syscall"
	"time"

	"github.com/google/mtail/internal/metrics"
	"github.com/google/mtail/internal/metrics/datum"
)

const c12PushDeadline = 150 * time.Millisecond

var c12SockFlag = map[string]string{"graphite": "graphite_host_port", "collectd": "collectd_socketpath", "statsd": "statsd_hostport"}

// c12Peer is the receiving end of a push target.
type c12Peer struct {
	format   string
	fault    string
	addr     string
	dir      string
	ln       net.Listener
	pc       net.PacketConn
	mu       sync.Mutex
	held     []net.Conn
	accepted atomic.Int64
	received atomic.Int64
	finished atomic.Int64 // connections read to their end
	data     []byte       // what a reading peer received (under mu)
	dgrams   []string     // datagram peers: one entry per datagram (under mu)
	wg       sync.WaitGroup
}

func newC12Peer(format, fault string) (*c12Peer, error) {
	p := &c12Peer{format: format, fault: fault}
	switch format {
	case "statsd":
		pc, err := net.ListenPacket("udp", "127.0.0.1:0")
		if err != nil {
			return nil, err
		}
		p.addr = pc.LocalAddr().String()
		if fault == "no-listener" {
			pc.Close()
			return p, nil
		}
		p.pc = pc
		p.wg.Add(1)
		go func() {
			defer p.wg.Done()
			buf := make([]byte, 65536)
			for {
				n, _, err := pc.ReadFrom(buf)
				if err != nil {
					return
				}
				p.mu.Lock()
				p.data = append(p.data, buf[:n]...)
				p.dgrams = append(p.dgrams, string(buf[:n]))
				p.mu.Unlock()
				p.received.Add(int64(n))
			}
		}()
		return p, nil
	case "graphite", "collectd":
		network, addr := "tcp", "127.0.0.1:0"
		if format == "collectd" {
			dir, err := os.MkdirTemp("", "c12")
			if err != nil {
				return nil, err
			}
			p.dir = dir
			network, addr = "unix", filepath.Join(dir, "s")
		}
		lc := net.ListenConfig{}
		if fault == "peer-stalls" {
			lc.Control = func(_, _ string, c syscall.RawConn) error {
				return c.Control(func(fd uintptr) { _ = syscall.SetsockoptInt(int(fd), syscall.SOL_SOCKET, syscall.SO_RCVBUF, 4096) })
			}
		}
		ln, err := lc.Listen(context.Background(), network, addr)
		if err != nil {
			return nil, err
		}
		p.addr = ln.Addr().String()
		if fault == "dial-refused" {
			ln.Close()
			if p.dir != "" {
				_ = os.Remove(addr)
			}
			return p, nil
		}
		p.ln = ln
		p.wg.Add(1)
		go func() {
			defer p.wg.Done()
			for {
				c, err := ln.Accept()
				if err != nil {
					return
				}
				n := p.accepted.Add(1)
				mode := p.fault
				if n > 1 {
					mode = "none" // follow-up pushes find a healthy peer
				}
				switch mode {
				case "peer-closes":
					c.Close()
				case "peer-resets":
					if tc, ok := c.(*net.TCPConn); ok {
						_ = tc.SetLinger(0)
					}
					// let a little through first
					buf := make([]byte, 64)
					_, _ = c.Read(buf)
					c.Close()
				case "peer-stalls":
					p.mu.Lock()
					p.held = append(p.held, c)
					p.mu.Unlock()
				default:
					p.wg.Add(1)
					go func() {
						defer p.wg.Done()
						b, _ := io.ReadAll(c)
						p.mu.Lock()
						p.data = append(p.data, b...)
						p.mu.Unlock()
						p.received.Add(int64(len(b)))
						c.Close()
						p.finished.Add(1)
					}()
				}
			}
		}()
		return p, nil
	}
	return nil, fmt.Errorf("unknown push format %q", format)
}

func (p *c12Peer) close() {
	if p.ln != nil {
		p.ln.Close()
	}
	if p.pc != nil {
		p.pc.Close()
	}
	p.mu.Lock()
	for _, c := range p.held {
		c.Close()
	}
	p.held = nil
	p.mu.Unlock()
	p.wg.Wait()
	if p.dir != "" {
		os.RemoveAll(p.dir)
	}
}

// c12SockFaults lists the peer behaviours per push format.
func c12SockFaults(format string) []string {
	if format == "statsd" {
		return []string{"none", "no-listener"}
	}
	return []string{"none", "dial-refused", "peer-closes", "peer-resets", "peer-stalls"}
}

// c12SetPushFlags points the exporter's push flags at the peer (and only at
// it); the returned function restores them.
func c12SetPushFlags(format, addr string) func() {
	for _, name := range c12SockFlag {
		_ = flag.Set(name, "")
	}
	_ = flag.Set(c12SockFlag[format], addr)
	_ = flag.Set("metric_push_write_deadline", c12PushDeadline.String())
	return func() {
		for _, name := range c12SockFlag {
			_ = flag.Set(name, "")
		}
		_ = flag.Set("metric_push_write_deadline", "10s")
	}
}

// c12Bulk is a metric large enough to fill any socket buffer between the
// exporter and a peer that does not read.
func c12Bulk(format, fault string) *metrics.Metric {
	n := 1500 // a unix stream socket holds ~200 KiB
	if format == "graphite" && fault == "peer-stalls" {
		n = 16000 // TCP over loopback: send buffer + the peer's (shrunk) receive buffer
	}
	m := metrics.NewMetric("bulk", "bulkprog", metrics.Counter, metrics.Int, "k")
	pad := "0123456789abcdefghijklmnopqrstuvwxyz0123456789abcdefghijklmnopqrstuvwxyz"
	for i := 0; i < n; i++ {
		d, _ := m.GetDatum(fmt.Sprintf("%s%06d", pad, i))
		datum.SetInt(d, int64(i), time.Unix(1700000000, 0))
	}
	return m
}

// got returns what the peer has received so far.
func (p *c12Peer) got() string {
	p.mu.Lock()
	defer p.mu.Unlock()
	return string(p.data)
}

func (p *c12Peer) datagrams() []string {
	p.mu.Lock()
	defer p.mu.Unlock()
	return append([]string(nil), p.dgrams...)
}
