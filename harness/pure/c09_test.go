package pure

// C09 — A metric behaves as an insertion-ordered map from label tuples to
// (value, timestamp, expiry).

import (
	"encoding/json"
	"fmt"
	"math"
	"testing"
	"time"

	"github.com/google/mtail/internal/metrics"
	"github.com/google/mtail/internal/metrics/datum"
	"github.com/google/mtail/verif/vstat"
	"pgregory.net/rapid"
)

type c09Op struct {
	Op  string  `json:"op"`  // get set inc remove expire find emit json wl-get wl-remove wl-expire wl-find
	T   int     `json:"t"`   // index into the tuple universe
	I   int64   `json:"i"`   // integer value / increment
	F   float64 `json:"f"`   // float value / observation
	S   string  `json:"s"`   // string value
	TS  int64   `json:"ts"`  // timestamp, seconds (never 0)
	Exp int64   `json:"exp"` // expiry, nanoseconds
}

type c09Case struct {
	Kind  int     `json:"kind"`
	Type  int     `json:"type"`
	Arity int     `json:"arity"`
	Ops   []c09Op `json:"ops"`
}

func c09Universe(ar int) [][]string {
	switch ar {
	case 0:
		return [][]string{{}}
	case 1:
		return [][]string{{"a"}, {"b"}, {"c"}, {""}, {"ab"}}
	case 2:
		return [][]string{{"a", "b"}, {"b", "a"}, {"a", "a"}, {"a", ""}, {"", "a"}}
	default:
		return [][]string{{"a", "b", "c"}, {"c", "b", "a"}, {"a", "a", "a"}, {"", "", ""}, {"ab", "", "c"}}
	}
}

type c09Entry struct {
	labels []string
	i      int64
	f      float64
	s      string
	bcount uint64
	bsum   float64
	bb     map[float64]uint64
	timeNs int64
	expiry time.Duration
}

var c09Buckets = []datum.Range{{Min: 0, Max: 1}, {Min: 1, Max: 2}, {Min: 2, Max: 4}}

func runC09(c c09Case) *vstat.Failure {
	return vstat.CatchBounded(60*time.Second, func() *vstat.Failure { return runC09x(c) })
}

func runC09x(c c09Case) *vstat.Failure {
	typ := metrics.Type(c.Type)
	m := metrics.NewMetric("m", "prog", metrics.Kind(c.Kind), typ, c08Keys(c.Arity)...)
	if typ == metrics.Buckets {
		m.Buckets = c09Buckets
	}
	uni := c09Universe(c.Arity)
	var model []*c09Entry
	find := func(tp []string) int {
		for i, e := range model {
			if tupleEq(e.labels, tp) {
				return i
			}
		}
		return -1
	}
	wrong := func(tp []string) []string {
		if len(tp) > 0 {
			return tp[:len(tp)-1]
		}
		return []string{"x"}
	}
	wrongLong := func(tp []string) []string { return append(append([]string(nil), tp...), "x") }

	check := func(step int, op c09Op) *vstat.Failure {
		if len(m.LabelValues) != len(model) {
			return vstat.Failf("size", "step %d %+v: %d label values, model has %d", step, op, len(m.LabelValues), len(model))
		}
		for i, e := range model {
			lv := m.LabelValues[i]
			if !tupleEq(lv.Labels, e.labels) {
				return vstat.Failf("order-or-labels", "step %d %+v: position %d holds %q, model %q", step, op, i, lv.Labels, e.labels)
			}
			if f := c09Value(typ, lv.Value, e); f != nil {
				f.Msg = fmt.Sprintf("step %d %+v: tuple %q: %s", step, op, e.labels, f.Msg)
				return f
			}
			if lv.Expiry != e.expiry {
				return vstat.Failf("expiry", "step %d %+v: tuple %q expiry %v model %v", step, op, e.labels, lv.Expiry, e.expiry)
			}
			if got := lv.Value.TimeUTC().UnixNano(); got != e.timeNs {
				return vstat.Failf("time", "step %d %+v: tuple %q time %d model %d", step, op, e.labels, got, e.timeNs)
			}
			if found := m.FindLabelValueOrNil(e.labels); found != lv {
				return vstat.Failf("find-mismatch", "step %d %+v: FindLabelValueOrNil(%q) = %v, enumeration has %v", step, op, e.labels, found, lv)
			}
		}
		return nil
	}

	create := func(tp []string) (*c09Entry, datum.Datum, *vstat.Failure) {
		t0 := time.Now().UnixNano()
		d, err := m.GetDatum(tp...)
		t1 := time.Now().UnixNano()
		if err != nil || d == nil {
			return nil, nil, vstat.Failf("getdatum-error", "GetDatum(%q): %v", tp, err)
		}
		i := find(tp)
		if i >= 0 {
			if m.LabelValues[i].Value != d {
				return nil, nil, vstat.Failf("getdatum-wrong-datum", "GetDatum(%q) returned a datum other than the stored one", tp)
			}
			return model[i], d, nil
		}
		e := &c09Entry{labels: append([]string(nil), tp...), bb: map[float64]uint64{}}
		// a fresh datum is stamped with the wall clock
		got := d.TimeUTC().UnixNano()
		if typ == metrics.Buckets {
			// a fresh histogram datum carries no timestamp until its first observation
			if got != 0 {
				return nil, nil, vstat.Failf("create-time", "fresh buckets datum time %d want 0", got)
			}
		} else if got < t0 || got > t1 {
			return nil, nil, vstat.Failf("create-time", "fresh datum time %d outside [%d,%d]", got, t0, t1)
		}
		e.timeNs = got
		model = append(model, e)
		return e, d, nil
	}

	for step, op := range c.Ops {
		tp := uni[op.T%len(uni)]
		ts := time.Unix(op.TS, 0)
		switch op.Op {
		case "get":
			if _, _, f := create(tp); f != nil {
				return f
			}
		case "set", "inc":
			e, d, f := create(tp)
			if f != nil {
				return f
			}
			switch typ {
			case metrics.Int:
				if op.Op == "inc" {
					datum.IncIntBy(d, op.I, ts)
					e.i += op.I
				} else {
					datum.SetInt(d, op.I, ts)
					e.i = op.I
				}
			case metrics.Float:
				datum.SetFloat(d, op.F, ts)
				e.f = op.F
			case metrics.String:
				datum.SetString(d, op.S, ts)
				e.s = op.S
			case metrics.Buckets:
				datum.Observe(d, op.F, ts)
				e.bcount++
				e.bsum += op.F
				placed := false
				for _, r := range c09Buckets {
					if op.F <= r.Max {
						e.bb[r.Max]++
						placed = true
						break
					}
				}
				if !placed {
					e.bb[math.Inf(1)]++
				}
			}
			e.timeNs = ts.UnixNano()
		case "remove":
			if err := m.RemoveDatum(tp...); err != nil {
				return vstat.Failf("remove-error", "RemoveDatum(%q): %v", tp, err)
			}
			if i := find(tp); i >= 0 {
				model = append(model[:i], model[i+1:]...)
			}
		case "remove-oldest":
			// the tuple with the oldest last-update goes; among equally old ones any
			before := len(model)
			m.RemoveOldestDatum()
			if before == 0 {
				break
			}
			oldest := model[0].timeNs
			for _, e := range model {
				if e.timeNs < oldest {
					oldest = e.timeNs
				}
			}
			gone := -1
			for i, e := range model {
				if m.FindLabelValueOrNil(e.labels) == nil {
					if gone >= 0 {
						return vstat.Failf("remove-oldest", "step %d: RemoveOldestDatum removed more than one tuple (%q and %q)", step, model[gone].labels, e.labels)
					}
					gone = i
				}
			}
			if gone < 0 {
				return vstat.Failf("remove-oldest", "step %d: RemoveOldestDatum removed nothing from %d tuples", step, before)
			}
			if model[gone].timeNs != oldest {
				return vstat.Failf("remove-oldest", "step %d: RemoveOldestDatum removed %q (last update %d), the oldest last update is %d", step, model[gone].labels, model[gone].timeNs, oldest)
			}
			model = append(model[:gone], model[gone+1:]...)
		case "expire":
			err := m.ExpireDatum(time.Duration(op.Exp), tp...)
			i := find(tp)
			if (err != nil) != (i < 0) {
				return vstat.Failf("expire-absent", "ExpireDatum(%q) err=%v, tuple present=%v", tp, err, i >= 0)
			}
			if i >= 0 {
				model[i].expiry = time.Duration(op.Exp)
			}
		case "find":
			lv := m.FindLabelValueOrNil(tp)
			if (lv == nil) != (find(tp) < 0) {
				return vstat.Failf("find-presence", "FindLabelValueOrNil(%q) = %v, model present=%v", tp, lv, find(tp) >= 0)
			}
		case "emit":
			ch := make(chan *metrics.LabelSet)
			go m.EmitLabelSets(ch)
			i := 0
			for ls := range ch {
				if i >= len(model) {
					i++
					continue
				}
				e := model[i]
				for k, key := range m.Keys {
					if ls.Labels[key] != e.labels[k] {
						return vstat.Failf("emit-labels", "step %d: emitted set %d has %s=%q, model %q", step, i, key, ls.Labels[key], e.labels[k])
					}
				}
				if len(ls.Labels) != len(uniqueKeys(m.Keys)) {
					return vstat.Failf("emit-labels", "step %d: emitted set %d has %d labels", step, i, len(ls.Labels))
				}
				if ls.Datum != m.LabelValues[i].Value {
					return vstat.Failf("emit-datum", "step %d: emitted set %d carries another datum", step, i)
				}
				i++
			}
			if i != len(model) {
				return vstat.Failf("emit-count", "step %d: EmitLabelSets yielded %d sets, model has %d", step, i, len(model))
			}
		case "json":
			if f := c09JSON(m, typ, model, step); f != nil {
				return f
			}
		case "wl-get":
			for _, w := range [][]string{wrong(tp), wrongLong(tp)} {
				if d, err := m.GetDatum(w...); err == nil || d != nil {
					return vstat.Failf("wrong-length-accepted", "GetDatum(%q) on arity %d: d=%v err=%v", w, c.Arity, d, err)
				}
			}
		case "wl-remove":
			for _, w := range [][]string{wrong(tp), wrongLong(tp)} {
				if err := m.RemoveDatum(w...); err == nil {
					return vstat.Failf("wrong-length-accepted", "RemoveDatum(%q) on arity %d returned nil", w, c.Arity)
				}
			}
		case "wl-expire":
			for _, w := range [][]string{wrong(tp), wrongLong(tp)} {
				if err := m.ExpireDatum(time.Hour, w...); err == nil {
					return vstat.Failf("wrong-length-accepted", "ExpireDatum(%q) on arity %d returned nil", w, c.Arity)
				}
			}
		case "wl-find":
			for _, w := range [][]string{wrong(tp), wrongLong(tp)} {
				if lv := m.FindLabelValueOrNil(w); lv != nil {
					return vstat.Failf("wrong-length-accepted", "FindLabelValueOrNil(%q) on arity %d found %v", w, c.Arity, lv)
				}
			}
		default:
			return vstat.Failf("bad-case", "unknown op %q", op.Op)
		}
		if f := check(step, op); f != nil {
			return f
		}
	}
	return nil
}

func uniqueKeys(k []string) map[string]bool {
	r := map[string]bool{}
	for _, s := range k {
		r[s] = true
	}
	return r
}

func c09Value(typ metrics.Type, d datum.Datum, e *c09Entry) *vstat.Failure {
	switch typ {
	case metrics.Int:
		if g := datum.GetInt(d); g != e.i {
			return vstat.Failf("value", "int value %d model %d", g, e.i)
		}
	case metrics.Float:
		if g := datum.GetFloat(d); math.Float64bits(g) != math.Float64bits(e.f) {
			return vstat.Failf("value", "float value %v model %v", g, e.f)
		}
	case metrics.String:
		if g := datum.GetString(d); g != e.s {
			return vstat.Failf("value", "string value %q model %q", g, e.s)
		}
	case metrics.Buckets:
		if g := datum.GetBucketsCount(d); g != e.bcount {
			return vstat.Failf("value", "bucket count %d model %d", g, e.bcount)
		}
		if g := datum.GetBucketsSum(d); math.Float64bits(g) != math.Float64bits(e.bsum) {
			return vstat.Failf("value", "bucket sum %v model %v", g, e.bsum)
		}
		for r, cnt := range datum.GetBuckets(d).GetBuckets() {
			if cnt != e.bb[r.Max] {
				return vstat.Failf("value", "bucket le=%v count %d model %d", r.Max, cnt, e.bb[r.Max])
			}
		}
	}
	return nil
}

// c09JSON marshals the metric and compares the generic decoding with the model.
func c09JSON(m *metrics.Metric, typ metrics.Type, model []*c09Entry, step int) *vstat.Failure {
	for _, e := range model {
		if typ == metrics.Float && (math.IsNaN(e.f) || math.IsInf(e.f, 0)) {
			return nil // JSON cannot carry these; C22 covers that
		}
		if typ == metrics.Buckets && (math.IsNaN(e.bsum) || math.IsInf(e.bsum, 0)) {
			return nil
		}
	}
	b, err := json.Marshal(m)
	if err != nil {
		return vstat.Failf("json-error", "step %d: %v", step, err)
	}
	var dec struct {
		Name        string
		LabelValues []struct {
			Labels []string
			Value  map[string]any
			Expiry int64
		}
	}
	if err := json.Unmarshal(b, &dec); err != nil {
		return vstat.Failf("json-error", "step %d: output does not decode: %v", step, err)
	}
	if len(dec.LabelValues) != len(model) {
		return vstat.Failf("json-count", "step %d: JSON has %d label values, model %d", step, len(dec.LabelValues), len(model))
	}
	for i, e := range model {
		lv := dec.LabelValues[i]
		if !tupleEq(lv.Labels, e.labels) && !(len(lv.Labels) == 0 && len(e.labels) == 0) {
			return vstat.Failf("json-labels", "step %d: JSON position %d labels %q model %q", step, i, lv.Labels, e.labels)
		}
		if time.Duration(lv.Expiry) != e.expiry {
			return vstat.Failf("json-expiry", "step %d: JSON expiry %d model %d", step, lv.Expiry, e.expiry)
		}
		switch typ {
		case metrics.Int:
			if v, _ := lv.Value["Value"].(float64); int64(v) != e.i && float64(e.i) != v {
				return vstat.Failf("json-value", "step %d: JSON value %v model %d", step, lv.Value["Value"], e.i)
			}
		case metrics.String:
			if v, _ := lv.Value["Value"].(string); v != e.s {
				return vstat.Failf("json-value", "step %d: JSON value %q model %q", step, v, e.s)
			}
		case metrics.Float:
			if v, _ := lv.Value["Value"].(float64); v != e.f {
				return vstat.Failf("json-value", "step %d: JSON value %v model %v", step, v, e.f)
			}
		}
	}
	return nil
}

func c09RunRaw(raw json.RawMessage) *vstat.Failure {
	c, err := vstat.JSON[c09Case](raw)
	if err != nil {
		return vstat.Failf("bad-replay", "%v", err)
	}
	return runC09(c)
}

func TestC09(t *testing.T) {
	st := vstat.New("C09", "operation histories (<= 40 steps) of get/set/inc/remove/expire/find/enumerate/JSON plus wrong-length variants over a universe of 5 tuples, for every kind x value type and key arity 0-3, compared step by step with an insertion-ordered map model; non-trivial = history of >= 6 steps with a remove of a present tuple followed by a create; distinct by the whole history")
	st.Assumptions = []string{"tuples avoid the separator/escape alphabet of C08 so the two properties do not mask each other", "a fresh datum is stamped with the wall clock (bracketed)"}
	st.Run(t, c09RunRaw, func() {
		opNames := []string{"get", "get", "set", "set", "set", "inc", "remove", "remove", "remove-oldest", "expire", "find", "emit", "json", "wl-get", "wl-remove", "wl-expire", "wl-find"}
		st.Check(t, func(rt *rapid.T) {
			var c c09Case
			defer st.Guard(func() any { return c })
			c.Kind = rapid.IntRange(1, 5).Draw(rt, "kind")
			c.Type = rapid.IntRange(0, 3).Draw(rt, "type")
			c.Arity = rapid.IntRange(0, 3).Draw(rt, "arity")
			n := rapid.IntRange(1, 40).Draw(rt, "n")
			for i := 0; i < n; i++ {
				op := c09Op{Op: rapid.SampledFrom(opNames).Draw(rt, "op"), T: rapid.IntRange(0, 4).Draw(rt, "t")}
				op.TS = rapid.Int64Range(1, 4000000000).Draw(rt, "ts")
				switch op.Op {
				case "set", "inc":
					op.I = rapid.Int64Range(-1000, 1000).Draw(rt, "i")
					op.F = rapid.SampledFrom([]float64{0, 0.5, 1, 1.5, 2, 3, 4, 5, -1, 1e9, math.Inf(1)}).Draw(rt, "f")
					op.S = rapid.SampledFrom([]string{"", "x", "hello", "\"q\""}).Draw(rt, "s")
				case "expire":
					op.Exp = rapid.SampledFrom([]int64{0, 1, int64(time.Hour), int64(24 * time.Hour)}).Draw(rt, "exp")
				}
				c.Ops = append(c.Ops, op)
			}
			st.Eval()
			// classify
			present := map[int]bool{}
			removedPresent, recreate := false, false
			uniN := len(c09Universe(c.Arity))
			for _, op := range c.Ops {
				k := op.T % uniN
				switch op.Op {
				case "get", "set", "inc":
					if !present[k] && removedPresent {
						recreate = true
					}
					present[k] = true
				case "remove":
					if present[k] {
						removedPresent = true
					}
					delete(present, k)
				}
			}
			if recreate && len(c.Ops) >= 6 {
				b, _ := json.Marshal(c)
				st.NonTrivial(string(b), c)
				st.Class(fmt.Sprintf("type-%v", metrics.Type(c.Type)))
				st.Class(fmt.Sprintf("arity-%d", c.Arity))
			}
			st.Report(rt, runC09(c), c)
		})
	})
}
