package pure

// Shared generated-store description used by C13, C22, C12.

import (
	"encoding/json"
	"fmt"
	"math"
	"regexp"
	"strings"
	"time"
	"unicode/utf8"

	"github.com/google/mtail/internal/metrics"
	"github.com/google/mtail/internal/metrics/datum"
	"github.com/google/mtail/verif/vstat"
	"pgregory.net/rapid"
)

type sLV struct {
	Labels []vstat.Q `json:"labels"`
	I      int64     `json:"i,omitempty"`
	F      c21F      `json:"f,omitempty"`
	S      vstat.Q   `json:"s,omitempty"`
	Obs    []c21F    `json:"obs,omitempty"` // histogram observations
	TimeNs int64     `json:"time_ns"`
}

type sMetric struct {
	Name   string   `json:"name"`
	Prog   string   `json:"prog"`
	Kind   int      `json:"kind"` // metrics.Kind
	Type   int      `json:"type"` // metrics.Type
	Keys   []string `json:"keys"`
	Bounds []c21F   `json:"bounds,omitempty"`
	// BucketOrder, if set, is the order in which the metric's ranges are stored
	// (a permutation of 0..len(Bounds)): a store built through the API may hold
	// them in any order; an observation goes to the first stored range that
	// takes it
	BucketOrder []int `json:"bucket_order,omitempty"`
	LVs         []sLV `json:"lvs"`
}

type storeCase struct {
	Metrics  []sMetric `json:"metrics"`
	OmitProg bool      `json:"omit_prog"`
	EmitTS   bool      `json:"emit_ts"`
	// Phase2 (C13): after the first scrape the store is changed and the SAME
	// exporter is scraped again
	Phase2 *sPhase2 `json:"phase2,omitempty"`
}

// sUpdate changes one datum in place.
type sUpdate struct {
	M      int    `json:"m"`
	LV     int    `json:"lv"`
	I      int64  `json:"i,omitempty"`
	F      c21F   `json:"f,omitempty"`
	Obs    []c21F `json:"obs,omitempty"`     // further histogram observations
	TimeNs int64  `json:"time_ns,omitempty"` // 0: the update carries the datum's current timestamp
}

type sPhase2 struct {
	Updates []sUpdate `json:"updates,omitempty"`
	Rekey   []int     `json:"rekey,omitempty"`  // metrics replaced (as a reload does) by a version whose keys are renamed
	AddKey  []int     `json:"addkey,omitempty"` // metrics replaced by a version with one more key
}

func (m *sMetric) kind() metrics.Kind { return metrics.Kind(m.Kind) }
func (m *sMetric) typ() metrics.Type  { return metrics.Type(m.Type) }

func (m *sMetric) ranges() []datum.Range {
	var r []datum.Range
	lo := 0.0
	for _, b := range m.Bounds {
		r = append(r, datum.Range{Min: lo, Max: float64(b)})
		lo = float64(b)
	}
	r = append(r, datum.Range{Min: lo, Max: math.Inf(1)})
	if len(m.BucketOrder) == len(r) {
		p := make([]datum.Range, len(r))
		for i, j := range m.BucketOrder {
			p[i] = r[j%len(r)]
		}
		return p
	}
	return r
}

// bucketOf returns the upper bound of the stored range an observation is
// counted in: the first range in stored order whose upper bound takes it (NaN:
// the +Inf range).
func (m *sMetric) bucketOf(v float64) float64 {
	for _, r := range m.ranges() {
		if v <= r.Max {
			return r.Max
		}
	}
	return math.Inf(1)
}

// build creates the real metric objects (not yet added to a store).
func (c *storeCase) build() ([]*metrics.Metric, error) {
	var out []*metrics.Metric
	for i := range c.Metrics {
		m, err := c.buildOne(i)
		if err != nil {
			return nil, err
		}
		out = append(out, m)
	}
	return out, nil
}

// buildOne creates the real metric object of metric i.
func (c *storeCase) buildOne(i int) (*metrics.Metric, error) {
	{
		sm := &c.Metrics[i]
		m := metrics.NewMetric(sm.Name, sm.Prog, sm.kind(), sm.typ(), sm.Keys...)
		m.SetSource(fmt.Sprintf("%s:%d:1", sm.Prog, i+1))
		if sm.typ() == metrics.Buckets {
			m.Buckets = sm.ranges()
		}
		for _, lv := range sm.LVs {
			d, err := m.GetDatum(vstat.Strs(lv.Labels)...)
			if err != nil {
				return nil, err
			}
			ts := time.Unix(0, lv.TimeNs)
			switch sm.typ() {
			case metrics.Int:
				datum.SetInt(d, lv.I, ts)
			case metrics.Float:
				datum.SetFloat(d, float64(lv.F), ts)
			case metrics.String:
				datum.SetString(d, string(lv.S), ts)
			case metrics.Buckets:
				for _, o := range lv.Obs {
					datum.Observe(d, float64(o), ts)
				}
			}
		}
		return m, nil
	}
}

var (
	promNameRE  = regexp.MustCompile(`^[a-zA-Z_:][a-zA-Z0-9_:]*$`)
	promLabelRE = regexp.MustCompile(`^[a-zA-Z_][a-zA-Z0-9_]*$`)
)

// promRepresentable decides, from the Prometheus data model (legacy name
// rules), whether a label set of a metric can be exposed.
func promRepresentable(sm *sMetric, lv *sLV, omitProg bool) bool {
	if !promNameRE.MatchString(strings.ReplaceAll(sm.Name, "-", "_")) {
		return false
	}
	names := map[string]bool{}
	if !omitProg {
		names["prog"] = true
		if !utf8.ValidString(sm.Prog) {
			return false
		}
	}
	for _, k := range sm.Keys {
		if !promLabelRE.MatchString(k) || strings.HasPrefix(k, "__") || names[k] {
			return false
		}
		if sm.kind() == metrics.Histogram && k == "le" {
			return false
		}
		names[k] = true
	}
	for _, v := range lv.Labels {
		if !utf8.ValidString(string(v)) {
			return false
		}
	}
	return true
}

type storeGenOpts struct {
	badNames     bool     // metric/key names Prometheus cannot represent
	badValues    bool     // non-UTF-8 label values
	labelAlpha   []string // label value pool
	nonFinite    bool
	sharedNames  bool // the same metric name in two programs
	maxMetrics   int
	distinctVals bool // every label set gets its own value and timestamp
	noText       bool
}

var labelPoolProm = []string{"", "a", "b", "x y", "q\"uote", "back\\slash", "new\nline", "héllo", "中", "200", "GET", "a-b", "a.b", "k=v", "{}", ","}

// genStore draws a store description.
func genStore(rt *rapid.T, o storeGenOpts) storeCase {
	var c storeCase
	c.OmitProg = rapid.Bool().Draw(rt, "omitProg")
	c.EmitTS = rapid.Bool().Draw(rt, "emitTS")
	nm := rapid.IntRange(0, o.maxMetrics).Draw(rt, "nmetrics")
	goodNames := []string{"a", "foo_bar", "foo-bar", "x:y", "m1", "lines_total", "b-c-d", "Z"}
	badNames := []string{"9bad", "sp ace", "é", "a.b"}
	goodKeys := []string{"k", "k2", "code", "method", "_u", "K"}
	badKeys := []string{"bad-key", "9k", "__reserved", "prog", "k"} // "k" twice = duplicate
	progs := []string{"p1.mtail", "p2.mtail"}
	usedNames := map[string]bool{} // hyphen-normalised name (+prog when the prog label is on)
	seq := int64(0)
	for i := 0; i < nm; i++ {
		var sm sMetric
		sm.Prog = rapid.SampledFrom(progs).Draw(rt, "prog")
		pool := goodNames
		if o.badNames && rapid.IntRange(0, 7).Draw(rt, "badname") == 0 {
			pool = badNames
		}
		sm.Name = rapid.SampledFrom(pool).Draw(rt, "name")
		norm := strings.ReplaceAll(sm.Name, "-", "_")
		// kinds: a name keeps one kind across programs (the store refuses otherwise)
		kindChoices := []int{int(metrics.Counter), int(metrics.Gauge), int(metrics.Timer), int(metrics.Histogram)}
		if !o.noText {
			kindChoices = append(kindChoices, int(metrics.Text))
		}
		sm.Kind = rapid.SampledFrom(kindChoices).Draw(rt, "kind")
		switch sm.kind() {
		case metrics.Text:
			sm.Type = int(metrics.String)
		case metrics.Histogram:
			sm.Type = int(metrics.Buckets)
			nb := rapid.IntRange(1, 4).Draw(rt, "nb")
			cur := 0.0
			for b := 0; b < nb; b++ {
				cur += rapid.SampledFrom([]float64{0.5, 1, 2, 10}).Draw(rt, "bstep")
				sm.Bounds = append(sm.Bounds, c21F(cur))
			}
		default:
			sm.Type = rapid.SampledFrom([]int{int(metrics.Int), int(metrics.Float)}).Draw(rt, "type")
		}
		nk := rapid.IntRange(0, 3).Draw(rt, "nkeys")
		for k := 0; k < nk; k++ {
			kp := goodKeys
			if o.badNames && rapid.IntRange(0, 9).Draw(rt, "badkey") == 0 {
				kp = badKeys
			}
			key := rapid.SampledFrom(kp).Draw(rt, "key")
			dup := false
			for _, e := range sm.Keys {
				if e == key {
					dup = true
				}
			}
			if dup && !(o.badNames && rapid.IntRange(0, 3).Draw(rt, "dupkey") == 0) {
				continue
			}
			sm.Keys = append(sm.Keys, key)
		}
		// name sharing rules: within a program names are unique after
		// hyphen replacement; across programs a name may be shared only if
		// asked for, with the same kind, and only while the prog label
		// distinguishes the series.
		ownKey := norm + "\x00" + sm.Prog
		if usedNames[ownKey] {
			continue
		}
		otherUsed := false
		for _, p := range progs {
			if p != sm.Prog && usedNames[norm+"\x00"+p] {
				otherUsed = true
			}
		}
		if otherUsed {
			if !o.sharedNames || c.OmitProg {
				continue
			}
			for _, e := range c.Metrics {
				if strings.ReplaceAll(e.Name, "-", "_") == norm {
					sm.Kind = e.Kind
					sm.Type = e.Type
					sm.Bounds = e.Bounds
					sm.Name = e.Name
				}
			}
		}
		usedNames[ownKey] = true
		nl := rapid.IntRange(0, 5).Draw(rt, "nlvs")
		if len(sm.Keys) == 0 && nl > 1 {
			nl = 1
		}
		seen := map[string]bool{}
		for l := 0; l < nl; l++ {
			var lv sLV
			for range sm.Keys {
				v := rapid.SampledFrom(o.labelAlpha).Draw(rt, "lv")
				if o.badValues && rapid.IntRange(0, 11).Draw(rt, "badval") == 0 {
					v = rapid.SampledFrom([]string{"\xff", "a\xc3", "\xe4\xb8"}).Draw(rt, "badv")
				}
				lv.Labels = append(lv.Labels, vstat.Q(v))
			}
			key := fmt.Sprintf("%q", lv.Labels)
			if seen[key] {
				continue
			}
			seen[key] = true
			seq++
			if o.distinctVals {
				lv.I = seq*7 + 1
				lv.F = c21F(float64(seq) + 0.25)
				// text values with characters every format has to carry or quote: per
				// cent signs, a control character (ANSI escape), DEL, quotes,
				// backslashes, non-ASCII and astral-plane runes
				lv.S = vstat.Q(fmt.Sprintf("text%d%s", seq, []string{"", "%", "%s", "%d", "\x1b[31m", "\x7f", "\u00e9", "q\"", "b\\", "\U0001F600"}[seq%10]))
				lv.TimeNs = (1600000000 + seq*1000) * 1e9
				switch rapid.IntRange(0, 7).Draw(rt, "tsform") {
				case 0:
					lv.TimeNs += 123456789 // sub-second part
				case 1:
					lv.TimeNs = -(seq*1000)*1e9 - 500000000 // before the epoch, with a sub-second part
				}
			} else {
				lv.I = rapid.SampledFrom([]int64{0, 1, -1, 42, math.MaxInt64, math.MinInt64, 1 << 53, 1234567}).Draw(rt, "i")
				fl := []float64{0, 1.5, -2.25, 1e300, 1e-300, 123456.789}
				if o.nonFinite {
					fl = append(fl, math.Inf(1), math.Inf(-1), math.NaN())
				}
				lv.F = c21F(rapid.SampledFrom(fl).Draw(rt, "f"))
				lv.S = vstat.Q(rapid.SampledFrom([]string{"", "hello", "two words"}).Draw(rt, "s"))
				lv.TimeNs = rapid.SampledFrom([]int64{0, 1e6, 1600000000e9, 1600000000123e6, 1700000000999999999, -1500000000}).Draw(rt, "t")
			}
			if sm.typ() == metrics.Float && o.nonFinite && o.distinctVals && rapid.IntRange(0, 9).Draw(rt, "nf") == 0 {
				lv.F = c21F(rapid.SampledFrom([]float64{math.Inf(1), math.Inf(-1), math.NaN()}).Draw(rt, "nfv"))
			}
			if sm.typ() == metrics.Buckets {
				no := rapid.IntRange(0, 5).Draw(rt, "nobs")
				for k := 0; k < no; k++ {
					lv.Obs = append(lv.Obs, c21F(rapid.SampledFrom([]float64{0, 0.5, 1, 1.5, 2, 3, 10, 100, -1}).Draw(rt, "obs")))
				}
				if no == 0 {
					lv.TimeNs = 0
				}
			}
			sm.LVs = append(sm.LVs, lv)
		}
		c.Metrics = append(c.Metrics, sm)
	}
	return c
}

// applyPhase2 applies the case's second phase to the real store (in-place
// updates through the datum API, reload-style replacement of metrics by a
// version with other keys) and returns the store case that describes the
// result.
func (c *storeCase) applyPhase2(store *metrics.Store, ms []*metrics.Metric) (storeCase, *vstat.Failure) {
	fail := func(f *vstat.Failure) (storeCase, *vstat.Failure) { return storeCase{}, f }
	var c2 storeCase
	b, _ := json.Marshal(*c)
	if err := json.Unmarshal(b, &c2); err != nil {
		return fail(vstat.Failf("harness", "%v", err))
	}
	for _, u := range c.Phase2.Updates {
		if u.M >= len(c2.Metrics) || u.LV >= len(c2.Metrics[u.M].LVs) {
			continue
		}
		sm := &c2.Metrics[u.M]
		lv := &sm.LVs[u.LV]
		d, err := ms[u.M].GetDatum(vstat.Strs(lv.Labels)...)
		if err != nil {
			return fail(vstat.Failf("bad-case", "%v", err))
		}
		if u.TimeNs != 0 {
			lv.TimeNs = u.TimeNs
		}
		ts := time.Unix(0, lv.TimeNs)
		switch sm.typ() {
		case metrics.Int:
			lv.I = u.I
			datum.SetInt(d, u.I, ts)
		case metrics.Float:
			lv.F = u.F
			datum.SetFloat(d, float64(u.F), ts)
		case metrics.Buckets:
			for _, o := range u.Obs {
				lv.Obs = append(lv.Obs, o)
				datum.Observe(d, float64(o), ts)
			}
		case metrics.String:
			datum.SetString(d, string(lv.S), ts)
		}
	}
	replace := func(i int, addKey bool) *vstat.Failure {
		if i >= len(c2.Metrics) {
			return nil
		}
		sm := &c2.Metrics[i]
		if addKey {
			sm.Keys = append(append([]string{}, sm.Keys...), "extra")
			for j := range sm.LVs {
				sm.LVs[j].Labels = append(append([]vstat.Q{}, sm.LVs[j].Labels...), "e")
			}
		} else {
			if len(sm.Keys) == 0 {
				return nil
			}
			nk := make([]string, len(sm.Keys))
			for k, key := range sm.Keys {
				nk[k] = key + "_2"
			}
			sm.Keys = nk
		}
		m, err := c2.buildOne(i)
		if err != nil {
			return vstat.Failf("bad-case", "%v", err)
		}
		if err := store.Add(m); err != nil {
			return vstat.Failf("bad-case", "store refused the replacement of %s: %v", sm.Name, err)
		}
		return nil
	}
	done := map[int]bool{}
	for _, i := range c.Phase2.Rekey {
		if !done[i] {
			done[i] = true
			if f := replace(i, false); f != nil {
				return fail(f)
			}
		}
	}
	for _, i := range c.Phase2.AddKey {
		if !done[i] {
			done[i] = true
			if f := replace(i, true); f != nil {
				return fail(f)
			}
		}
	}
	c2.Phase2 = nil
	return c2, nil
}

// genPhase2 draws a second phase for the case: in-place updates (same or new
// timestamps, further histogram observations) and reload-style replacements
// with other keys. Reports whether one was drawn.
func genPhase2(rt *rapid.T, c *storeCase) bool {
	if len(c.Metrics) == 0 || rapid.IntRange(0, 2).Draw(rt, "phase2") == 0 {
		return false
	}
	p2 := &sPhase2{}
	nu := rapid.IntRange(0, 4).Draw(rt, "nupd")
	for i := 0; i < nu; i++ {
		mi := rapid.IntRange(0, len(c.Metrics)-1).Draw(rt, "um")
		if len(c.Metrics[mi].LVs) == 0 {
			continue
		}
		u := sUpdate{M: mi, LV: rapid.IntRange(0, len(c.Metrics[mi].LVs)-1).Draw(rt, "ulv")}
		u.I = rapid.Int64Range(-1000, 1000).Draw(rt, "ui")
		u.F = c21F(rapid.Float64Range(-1e6, 1e6).Draw(rt, "uf"))
		no := rapid.IntRange(1, 3).Draw(rt, "uno")
		for k := 0; k < no; k++ {
			u.Obs = append(u.Obs, c21F(rapid.SampledFrom([]float64{-1, 0, 0.5, 1, 2, 3.5, 10, 1e9}).Draw(rt, "uo")))
		}
		if rapid.Bool().Draw(rt, "unewts") {
			u.TimeNs = c.Metrics[mi].LVs[u.LV].TimeNs + int64(rapid.IntRange(1, 5).Draw(rt, "udt"))*1e9
		}
		p2.Updates = append(p2.Updates, u)
	}
	nr := rapid.IntRange(0, 2).Draw(rt, "nrekey")
	for i := 0; i < nr; i++ {
		mi := rapid.IntRange(0, len(c.Metrics)-1).Draw(rt, "rm")
		if rapid.Bool().Draw(rt, "addkey") {
			p2.AddKey = append(p2.AddKey, mi)
		} else {
			p2.Rekey = append(p2.Rekey, mi)
		}
	}
	c.Phase2 = p2
	return true
}
