package pure

// C08 — Distinct label tuples always name distinct data.

import (
	"encoding/json"
	"fmt"
	"math"
	"strings"
	"sync"
	"testing"
	"time"
	"unicode/utf8"

	"github.com/google/mtail/internal/metrics"
	"github.com/google/mtail/internal/metrics/datum"
	"github.com/google/mtail/verif/vstat"
	"pgregory.net/rapid"
)

type c08Case struct {
	T1 []vstat.Q `json:"t1"`
	T2 []vstat.Q `json:"t2"`
}

func tupleEq(a, b []string) bool {
	if len(a) != len(b) {
		return false
	}
	for i := range a {
		if a[i] != b[i] {
			return false
		}
	}
	return true
}

func c08Keys(n int) []string {
	k := make([]string, n)
	for i := range k {
		k[i] = fmt.Sprintf("k%d", i)
	}
	return k
}

var c08ts = time.Unix(1700000000, 0)

// c08Sig gives a root-cause signature for a colliding pair: which characters
// sit at the element boundaries that were confused.
func c08Sig(t1, t2 []string) string {
	j1, j2 := strings.Join(t1, ""), strings.Join(t2, "")
	has := func(s, c string) bool { return strings.Contains(s, c) }
	switch {
	case has(j1+j2, "\\") && has(j1+j2, "-"):
		return "collision:backslash-and-hyphen"
	case has(j1+j2, "-"):
		return "collision:hyphen"
	case has(j1+j2, "\\"):
		return "collision:backslash"
	case has(j1+j2, "\xff"):
		return "collision:non-utf8"
	}
	return "collision:other"
}

func runC08(c c08Case) *vstat.Failure {
	return vstat.CatchBounded(60*time.Second, func() *vstat.Failure { return runC08x(c) })
}

func runC08x(c c08Case) *vstat.Failure {
	t1, t2 := vstat.Strs(c.T1), vstat.Strs(c.T2)
	if len(t1) != len(t2) {
		return vstat.Failf("bad-case", "arity differs")
	}
	eq := tupleEq(t1, t2)
	m := metrics.NewMetric("m", "p", metrics.Gauge, metrics.Int, c08Keys(len(t1))...)
	d1, err := m.GetDatum(t1...)
	if err != nil {
		return vstat.Failf("getdatum-error", "GetDatum(%q): %v", t1, err)
	}
	d2, err := m.GetDatum(t2...)
	if err != nil {
		return vstat.Failf("getdatum-error", "GetDatum(%q): %v", t2, err)
	}
	same := d1 == d2
	if same != eq {
		if eq {
			return vstat.Failf("equal-tuples-distinct-data", "GetDatum(%q) twice gave two data", t1)
		}
		return vstat.Failf(c08Sig(t1, t2), "tuples %q and %q address the same datum", t1, t2)
	}
	wantN := 2
	if eq {
		wantN = 1
	}
	if len(m.LabelValues) != wantN {
		return vstat.Failf("labelvalue-count", "%d label values for tuples %q %q", len(m.LabelValues), t1, t2)
	}
	if eq {
		return nil
	}
	datum.SetInt(d1, 1, c08ts)
	datum.SetInt(d2, 2, c08ts)
	g1, _ := m.GetDatum(t1...)
	g2, _ := m.GetDatum(t2...)
	if datum.GetInt(g1) != 1 || datum.GetInt(g2) != 2 {
		return vstat.Failf(c08Sig(t1, t2), "values read back %d,%d want 1,2 for %q %q", datum.GetInt(g1), datum.GetInt(g2), t1, t2)
	}
	// the same for a histogram: what is observed under one tuple is not seen
	// under the other (count, sum and every bucket)
	h := metrics.NewMetric("h", "p", metrics.Histogram, metrics.Buckets, c08Keys(len(t1))...)
	h.Buckets = []datum.Range{{Min: 0, Max: 1}, {Min: 1, Max: 2}, {Min: 2, Max: math.Inf(1)}}
	h1, err := h.GetDatum(t1...)
	if err != nil {
		return vstat.Failf("getdatum-error", "histogram GetDatum(%q): %v", t1, err)
	}
	h2, err := h.GetDatum(t2...)
	if err != nil {
		return vstat.Failf("getdatum-error", "histogram GetDatum(%q): %v", t2, err)
	}
	datum.Observe(h1, 0.5, c08ts)
	datum.Observe(h1, 1.5, c08ts)
	b2 := datum.GetBuckets(h2)
	for r, n := range b2.GetBuckets() {
		if n != 0 {
			return vstat.Failf("histogram-tuples-share-buckets", "observations made under %q show in bucket %v of %q (count %d)", t1, r, t2, n)
		}
	}
	if b2.GetCount() != 0 || b2.GetSum() != 0 {
		return vstat.Failf("histogram-tuples-share-buckets", "observations made under %q show under %q: count %d sum %v", t1, t2, b2.GetCount(), b2.GetSum())
	}
	// the metric is replaced in a store by a new version of itself (what a
	// program reload does): the two tuples must still name two data, each with
	// its own value
	{
		s := metrics.NewStore()
		m.SetSource("p:1:1")
		if err := s.Add(m); err != nil {
			return vstat.Failf("store-add-error", "%v", err)
		}
		m2 := metrics.NewMetric("m", "p", metrics.Gauge, metrics.Int, c08Keys(len(t1))...)
		m2.SetSource("p:1:1")
		if err := s.Add(m2); err != nil {
			return vstat.Failf("store-add-error", "%v", err)
		}
		r1, r2 := m2.FindLabelValueOrNil(t1), m2.FindLabelValueOrNil(t2)
		if r1 == nil || r2 == nil || r1 == r2 || r1.Value == r2.Value || !tupleEq(r1.Labels, t1) || !tupleEq(r2.Labels, t2) || datum.GetInt(r1.Value) != 1 || datum.GetInt(r2.Value) != 2 || len(m2.LabelValues) != 2 {
			return vstat.Failf("replacement-merges-tuples", "after the metric was replaced in the store, %q and %q name %v and %v (%d label values)", t1, t2, r1, r2, len(m2.LabelValues))
		}
	}
	if err := m.ExpireDatum(time.Hour, t1...); err != nil {
		return vstat.Failf("expire-error", "ExpireDatum(%q): %v", t1, err)
	}
	lv1, lv2 := m.FindLabelValueOrNil(t1), m.FindLabelValueOrNil(t2)
	if lv1 == nil || lv2 == nil {
		return vstat.Failf("find-nil", "FindLabelValueOrNil nil for a present tuple %q/%q", t1, t2)
	}
	if !tupleEq(lv1.Labels, t1) || !tupleEq(lv2.Labels, t2) {
		return vstat.Failf(c08Sig(t1, t2), "find(%q)=%q find(%q)=%q", t1, lv1.Labels, t2, lv2.Labels)
	}
	if lv1.Expiry != time.Hour || lv2.Expiry != 0 {
		return vstat.Failf("expiry-touches-other", "after expiring %q: expiry(t1)=%v expiry(t2)=%v", t1, lv1.Expiry, lv2.Expiry)
	}
	ch := make(chan *metrics.LabelSet, 4)
	m.EmitLabelSets(ch)
	var sets []*metrics.LabelSet
	for ls := range ch {
		sets = append(sets, ls)
	}
	if len(sets) != 2 {
		return vstat.Failf("emit-count", "EmitLabelSets gave %d sets", len(sets))
	}
	for i, want := range [][]string{t1, t2} {
		for k, key := range m.Keys {
			if sets[i].Labels[key] != want[k] {
				return vstat.Failf("emit-labels", "set %d label %s=%q want %q", i, key, sets[i].Labels[key], want[k])
			}
		}
	}
	if err := m.RemoveDatum(t1...); err != nil {
		return vstat.Failf("remove-error", "%v", err)
	}
	if m.FindLabelValueOrNil(t1) != nil {
		return vstat.Failf("remove-ineffective", "tuple %q still present after RemoveDatum", t1)
	}
	lv2 = m.FindLabelValueOrNil(t2)
	if lv2 == nil || !tupleEq(lv2.Labels, t2) || datum.GetInt(lv2.Value) != 2 || len(m.LabelValues) != 1 {
		return vstat.Failf("remove-touches-other", "after removing %q, %q is %v (n=%d)", t1, t2, lv2, len(m.LabelValues))
	}
	d1b, _ := m.GetDatum(t1...)
	if d1b == lv2.Value || datum.GetInt(d1b) != 0 || datum.GetInt(lv2.Value) != 2 || len(m.LabelValues) != 2 {
		return vstat.Failf("recreate-touches-other", "re-creating %q disturbed %q", t1, t2)
	}
	return nil
}

func c08RunRaw(raw json.RawMessage) *vstat.Failure {
	c, err := vstat.JSON[c08Case](raw)
	if err != nil {
		return vstat.Failf("bad-replay", "%v", err)
	}
	return runC08(c)
}

var c08Atoms = []string{"-", "\\", "\\-", "-\\", "", "a", "\xff", " ", "b", "\\\\", "--",
	"\xfe", "\xe9", "\xe8", "\xef\xbf\xbd", "\xc3", "\xc3\xa9", "\x00", "A", "\xe4\xb8", "\xe4\xb8\xad"}

func TestC08(t *testing.T) {
	st := vstat.New("C08", "pairs of label tuples (arity 1-4) over an adversarial alphabet {'-', '\\', '\\-', '-\\', '', 'a', 0xff, ' ', ...}, drawn independently and by structure-aware mutation of one tuple (move a character across an element boundary, swap '\\-' and '-', split/merge elements); plus exhaustive small scope; plus 200 000 distinct ordinary-looking tuples in one metric, each with a value of its own; non-trivial = the tuples differ and both contain a separator or escape character; distinct by the pair")
	st.Assumptions = []string{"metric API used as the VM uses it: GetDatum, FindLabelValueOrNil, ExpireDatum, RemoveDatum, EmitLabelSets"}
	st.Run(t, c08RunRaw, func() {
		c08Exhaustive(t, st)
		if t.Failed() {
			return
		}
		c08Concurrent(t, st)
		if t.Failed() {
			return
		}
		c08Bulk(t, st)
		if t.Failed() {
			return
		}
		elem := rapid.Custom(func(rt *rapid.T) string {
			n := rapid.IntRange(0, 3).Draw(rt, "n")
			var sb strings.Builder
			for i := 0; i < n; i++ {
				sb.WriteString(rapid.SampledFrom(c08Atoms).Draw(rt, "atom"))
			}
			return sb.String()
		})
		st.Check(t, func(rt *rapid.T) {
			var c c08Case
			defer st.Guard(func() any { return c })
			ar := rapid.IntRange(1, 4).Draw(rt, "arity")
			t1 := make([]string, ar)
			for i := range t1 {
				t1[i] = elem.Draw(rt, "e1")
			}
			t2 := make([]string, ar)
			mode := rapid.IntRange(0, 4).Draw(rt, "mode")
			switch {
			case mode == 0:
				for i := range t2 {
					t2[i] = elem.Draw(rt, "e2")
				}
			case mode == 1:
				copy(t2, t1)
			default:
				copy(t2, t1)
				// structure-aware mutation
				mut := rapid.IntRange(0, 6).Draw(rt, "mut")
				i := rapid.IntRange(0, ar-1).Draw(rt, "i")
				switch mut {
				case 0: // move the joint between element i and i+1
					if ar >= 2 {
						if i == ar-1 {
							i--
						}
						joined := t2[i] + "-" + t2[i+1]
						cut := rapid.IntRange(0, len(joined)).Draw(rt, "cut")
						rest := joined[cut:]
						rest = strings.TrimPrefix(rest, "-")
						t2[i], t2[i+1] = joined[:cut], rest
					}
				case 1:
					t2[i] = strings.Replace(t2[i], "\\-", "-", 1)
				case 2:
					t2[i] = strings.Replace(t2[i], "-", "\\-", 1)
				case 3: // move one character to the neighbour
					if ar >= 2 && len(t2[i]) > 0 {
						j := (i + 1) % ar
						if j > i {
							t2[j] = t2[i][len(t2[i])-1:] + t2[j]
							t2[i] = t2[i][:len(t2[i])-1]
						} else {
							t2[j] = t2[j] + t2[i][:1]
							t2[i] = t2[i][1:]
						}
					}
				case 4:
					t2[i] = t2[i] + rapid.SampledFrom(c08Atoms).Draw(rt, "app")
				case 5: // replace one byte by another byte (e.g. one invalid UTF-8 byte by another, or by U+FFFD)
					if len(t2[i]) > 0 {
						k := rapid.IntRange(0, len(t2[i])-1).Draw(rt, "k")
						rep := rapid.SampledFrom([]string{"\xff", "\xfe", "\xe9", "\xe8", "\xef\xbf\xbd", "\x00", "a", "A", "-", "\\"}).Draw(rt, "rep")
						t2[i] = t2[i][:k] + rep + t2[i][k+1:]
					}
				case 6: // change case / normalisation-sensitive edit
					if strings.ToUpper(t2[i]) != t2[i] {
						t2[i] = strings.ToUpper(t2[i])
					} else {
						t2[i] = t2[i] + " "
					}
				}
			}
			c = c08Case{T1: vstat.Qs(t1), T2: vstat.Qs(t2)}
			st.Eval()
			special := func(t []string) bool {
				j := strings.Join(t, "")
				return strings.ContainsAny(j, "-\\") || !utf8.ValidString(j)
			}
			if !utf8.ValidString(strings.Join(t1, "")) && !utf8.ValidString(strings.Join(t2, "")) && !tupleEq(t1, t2) {
				st.Class("both-non-utf8")
			}
			if !tupleEq(t1, t2) && special(t1) && special(t2) {
				b, _ := json.Marshal(c)
				st.NonTrivial(string(b), c)
				st.Class(fmt.Sprintf("arity-%d", ar))
			}
			if tupleEq(t1, t2) {
				st.Class("equal-pair")
			}
			st.Report(rt, runC08(c), c)
		})
	})
}

// c08Exhaustive: every tuple of arity 1 and 2 (thorough: arity 3 with shorter
// strings) over {a, -, \}: inserting all of them must give as many data as
// there are tuples, each reading back its own value.
func c08Exhaustive(t *testing.T, st *vstat.Stats) {
	shard, _ := vstat.Shard()
	if shard != 0 {
		return
	}
	strs := func(maxLen int) []string {
		out := []string{""}
		frontier := []string{""}
		for l := 1; l <= maxLen; l++ {
			var next []string
			for _, p := range frontier {
				for _, a := range []string{"a", "-", "\\"} {
					next = append(next, p+a)
				}
			}
			out = append(out, next...)
			frontier = next
		}
		return out
	}
	type scope struct{ ar, maxLen int }
	scopes := []scope{{1, 3}, {2, 3}, {3, 2}, {4, 1}}
	if vstat.Thorough() {
		scopes = append(scopes, scope{2, 4}, scope{3, 3}, scope{4, 2})
	}
	for _, sc := range scopes {
		ss := strs(sc.maxLen)
		var tuples [][]string
		var rec func(prefix []string)
		rec = func(prefix []string) {
			if len(prefix) == sc.ar {
				tuples = append(tuples, append([]string(nil), prefix...))
				return
			}
			for _, s := range ss {
				rec(append(prefix, s))
			}
		}
		rec(nil)
		m := metrics.NewMetric("m", "p", metrics.Gauge, metrics.Int, c08Keys(sc.ar)...)
		owner := map[datum.Datum]int{}
		for i, tp := range tuples {
			d, err := m.GetDatum(tp...)
			if err != nil {
				st.Violate(t, vstat.Failf("getdatum-error", "%v", err), c08Case{T1: vstat.Qs(tp), T2: vstat.Qs(tp)}, "exhaustive")
				return
			}
			st.Eval()
			if j, ok := owner[d]; ok {
				c := c08Case{T1: vstat.Qs(tuples[j]), T2: vstat.Qs(tp)}
				st.Violate(t, vstat.Failf(c08Sig(tuples[j], tp), "tuples %q and %q address the same datum", tuples[j], tp), c, "exhaustive")
				if t.Failed() {
					return
				}
				continue
			}
			owner[d] = i
			datum.SetInt(d, int64(i), c08ts)
			if strings.ContainsAny(strings.Join(tp, ""), "-\\") {
				st.NonTrivialDistinct(1, map[string]any{"exhaustive_tuple": vstat.Qs(tp)})
			}
		}
		for i, tp := range tuples {
			lv := m.FindLabelValueOrNil(tp)
			if lv == nil || !tupleEq(lv.Labels, tp) || (owner[lv.Value] == i && datum.GetInt(lv.Value) != int64(i)) {
				if j, ok := owner[lv.Value]; ok && j != i && st.IsLive("C08-1") {
					continue
				}
				st.Violate(t, vstat.Failf("exhaustive-readback", "tuple %q reads back %v", tp, lv), c08Case{T1: vstat.Qs(tp), T2: vstat.Qs(tp)}, "exhaustive")
				if t.Failed() {
					return
				}
			}
		}
		st.Class(fmt.Sprintf("exhaustive-arity%d-len%d-tuples", sc.ar, sc.maxLen))
		st.ClassN(fmt.Sprintf("exhaustive-arity%d-len%d-tuples", sc.ar, sc.maxLen), len(tuples)-1)
	}
	st.Extra("exhaustive_scope", "every tuple of arity 1 and 2 over strings of length <= 3, arity 3 with length <= 2 and arity 4 with length <= 1 over {a, -, \\} (thorough: also arity 2 with length <= 4, arity 3 with length <= 3, arity 4 with length <= 2): number of distinct data = number of tuples, each reads back its own value")
	st.Exhaustive = true
}

// c08Concurrent: equal tuples address the same datum also when several
// goroutines touch a new tuple at the same moment (VM of the old and of the new
// version of a program around a reload, exporters): after the round the metric
// holds exactly one label value and every caller got that datum.
func c08Concurrent(t *testing.T, st *vstat.Stats) {
	rounds := vstat.Scale(3000, 40000)
	const workers = 8
	m := metrics.NewMetric("m", "p", metrics.Counter, metrics.Int, "k")
	for r := 0; r < rounds; r++ {
		tp := fmt.Sprintf("v%d", r)
		var start sync.WaitGroup
		var done sync.WaitGroup
		start.Add(1)
		got := make([]datum.Datum, workers)
		for w := 0; w < workers; w++ {
			done.Add(1)
			go func(w int) {
				defer done.Done()
				start.Wait()
				d, err := m.GetDatum(tp)
				if err == nil {
					datum.IncIntBy(d, 1, c08ts)
					got[w] = d
				}
			}(w)
		}
		start.Done()
		done.Wait()
		st.Eval()
		c := map[string]any{"concurrent_first_touch": tp, "workers": workers, "round": r}
		lv := m.FindLabelValueOrNil([]string{tp})
		n := 0
		for _, l := range m.LabelValues {
			if len(l.Labels) == 1 && l.Labels[0] == tp {
				n++
			}
		}
		var f *vstat.Failure
		switch {
		case lv == nil || n != 1:
			f = vstat.Failf("concurrent-create-duplicates", "tuple %q: %d label values after %d concurrent GetDatum calls", tp, n, workers)
		case datum.GetInt(lv.Value) != workers:
			f = vstat.Failf("concurrent-create-duplicates", "tuple %q: counter %d after %d increments through GetDatum", tp, datum.GetInt(lv.Value), workers)
		default:
			for _, d := range got {
				if d != lv.Value {
					f = vstat.Failf("concurrent-create-duplicates", "tuple %q: a caller got a datum that is not the stored one", tp)
				}
			}
		}
		if f != nil {
			st.Violate(t, f, c, "concurrent")
			return
		}
		if r%500 == 0 {
			_ = m.RemoveDatum(tp)
		}
	}
	st.ClassN("concurrent-first-touch-rounds", rounds)
}

// c08Bulk: 200 000 distinct ordinary-looking tuples in ONE metric, each given
// its own value. A key that keeps less than the whole tuple (a truncated or
// hashed key) makes two of them share a datum long before that many: with 32
// bits the chance of no clash among 200 000 is below 1 %.
func c08Bulk(t *testing.T, st *vstat.Stats) {
	shard, _ := vstat.Shard()
	if shard != 0 {
		return
	}
	const n = 200000
	const digits = "abcdefghijklmnopqrstuvwxyz0123456789"
	tuple := func(i int) []string {
		// splitmix64 of the index: a fixed, reproducible sequence
		z := uint64(i)*0x9e3779b97f4a7c15 + 0x1234567
		z = (z ^ (z >> 30)) * 0xbf58476d1ce4e5b9
		z = (z ^ (z >> 27)) * 0x94d049bb133111eb
		z ^= z >> 31
		var b [8]byte
		for k := range b {
			b[k] = digits[z%36]
			z /= 36
		}
		return []string{[]string{"GET", "POST", "PUT", "HEAD"}[i%4], fmt.Sprintf("/item/%s%d", b[:], i%7)}
	}
	m := metrics.NewMetric("bulk", "prog", metrics.Counter, metrics.Int, "method", "path")
	seen := make(map[string]int, n)
	for i := 0; i < n; i++ {
		tp := tuple(i)
		key := tp[0] + "\x00" + tp[1]
		if _, dup := seen[key]; dup {
			continue // the sequence repeated a tuple (not expected): skip it
		}
		seen[key] = i
		d, err := m.GetDatum(tp...)
		if err != nil {
			st.Violate(t, vstat.Failf("harness", "GetDatum: %v", err), nil, "bulk")
			return
		}
		datum.SetInt(d, int64(i), time.Unix(1, 0))
	}
	st.Evals(len(seen))
	st.Class("bulk-tuples-in-one-metric")
	report := func(i, j int, what string) {
		c := c08Case{}
		for _, e := range tuple(i) {
			c.T1 = append(c.T1, vstat.Q(e))
		}
		for _, e := range tuple(j) {
			c.T2 = append(c.T2, vstat.Q(e))
		}
		f := runC08(c)
		if f == nil {
			f = vstat.Failf("distinct-tuples-share-a-datum:bulk", "%s (not reproduced with the two tuples alone)", what)
		}
		st.Violate(t, f, c, "bulk")
	}
	for key, i := range seen {
		_ = key
		lv := m.FindLabelValueOrNil(tuple(i))
		if lv == nil {
			report(i, i, fmt.Sprintf("tuple %q was created and cannot be found", tuple(i)))
			return
		}
		if j := int(datum.GetInt(lv.Value)); j != i {
			report(i, j, fmt.Sprintf("tuples %q and %q name the same datum", tuple(i), tuple(j)))
			return
		}
	}
	if len(m.LabelValues) != len(seen) {
		st.Violate(t, vstat.Failf("distinct-tuples-share-a-datum:bulk", "%d distinct tuples were created, the metric lists %d", len(seen), len(m.LabelValues)), nil, "bulk")
	}
}
