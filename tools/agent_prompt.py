#!/usr/bin/env python3
"""Prints the prompt given to a mutation sub-agent for one property (only the
property's text and its scratch worktree; nothing from /verif)."""
import json, sys
pid = sys.argv[1]
la, lb = (sys.argv[2], sys.argv[3]) if len(sys.argv) > 3 else ("a", "b")
import os, glob
prior = []
for d in sorted(glob.glob("/verif/seeded/%s?" % pid)):
    if d[-1] in (la, lb): continue
    try: prior.append("  - " + json.load(open(d + "/meta.json")).get("summary", "")[:260].replace("\n", " "))
    except Exception: pass
PRIOR = ("\n\nOther authors have ALREADY produced the following changes for this property; yours must have different root causes AND exercise a different aspect of the property (a different function, a different step of the sequence, a different kind of input) than all of these:\n" + "\n".join(prior) + "\n") if prior and la != "a" else ""
p = [json.loads(l) for l in open('/verif/properties.jsonl') if json.loads(l)['id'] == pid][0]
print(f"""You are helping evaluate a verification effort for the open-source project google/mtail (a Go log-tailing daemon that compiles a small DSL to bytecode, runs it in a VM per log line, and exports metrics). Your job: act as a realistic "bug author".

You have your own scratch git worktree of the repository at /tmp/wt/{pid} (detached HEAD at the pinned commit). Work ONLY there and under /tmp/seeded/. Do NOT read or touch /verif or /repo (never cd there, never list or open files there). The sandbox is offline; before every go command run:
  export GOFLAGS=-mod=mod GOPROXY=off GOSUMDB=off GOTOOLCHAIN=local
The existing test suite is run with:  cd /tmp/wt/{pid} && go test -vet=off -count=1 -timeout 25m ./...

Here is a semantic property of mtail that is supposed to hold:

  Title: {p['title']}
  Statement: {p['statement']}
  Quantified over: {p['quantifier']['text']}
  Code it is anchored in: {', '.join(p['anchors']['files'])}

TASK: produce TWO independent, different source changes to google/mtail (non-test Go files), call them variant "{la}" and variant "{lb}", each of which BREAKS this property while (1) still compiling (`go build ./...`) and (2) still passing the ENTIRE existing test suite unchanged. Each change should look like a plausible mistake, refactoring slip, or "optimisation" a developer could make (a few lines), not sabotage with magic constants. Prefer changes that need something SPECIFIC to manifest -- a particular interleaving, a crash or fault at a particular point, a multi-step sequence of operations, an unusual input, or two cooperating sites that each look fine alone -- rather than ones that ordinary use would expose at once. The two variants should have different root causes (different functions / different aspect of the property).{PRIOR}

For each variant X in {{{la}, {lb}}} deliver a directory /tmp/seeded/{pid}X/ containing:
  - patch.diff : output of `git diff` in the worktree for that variant alone (applies with `git apply` to a clean checkout of the pinned commit; source changes only, no test files)
  - demo_test.go (or a small main program) : a demonstration that FAILS with the change applied and PASSES on the unmodified tree; say in meta.json in which directory of the repo it has to be placed and the exact command to run it
  - meta.json : {{"property": "{pid}", "variant": "X", "summary": "...what was changed and why it breaks the property...", "needs_to_manifest": "...the specific input / sequence / interleaving / fault needed...", "demo_location": "...", "demo_cmd": "...", "suite_result": "...what you ran and observed..."}}

Procedure you must follow and confirm for each variant: apply the change in the worktree; `go build ./...`; run the full existing suite and confirm it passes (a test that already fails on the unmodified tree in this sandbox -- e.g. internal/mtail example-program tests for examples/dhcpd.mtail -- does not count; judge relative to that baseline; if any other test fails, your change is not acceptable -- choose another); run your demonstration and confirm it fails; save your diff with `git diff > patch.diff` first, then `git checkout -- .` to revert the source change (NEVER use `git stash`: the stash is shared between all worktrees of this repository and other agents work in sibling worktrees), run the demonstration again and confirm it passes; save the artifacts; make sure the worktree is clean (git status shows nothing except possibly your untracked demo file, which you should also remove) before starting the next variant. Do not commit anything. Do not modify existing test files.

When done, reply with a short summary of the two variants (files touched, what is needed to trigger them) and confirm the artifacts exist.""")
