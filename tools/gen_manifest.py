#!/usr/bin/env python3
"""Regenerates /verif/MANIFEST.json from checks_config.py (claimed checks) and
properties.jsonl (everything not yet claimed goes under not_applicable with a
reason)."""
import json, os, sys
V = os.path.dirname(os.path.dirname(os.path.abspath(__file__)))
sys.path.insert(0, V)
from checks_config import CHECKS, NOT_APPLICABLE, HOOK_COMMITS

props = [json.loads(l) for l in open(os.path.join(V, "properties.jsonl"))]
base = json.load(open("/root/.vp/BASELINE.json"))
checks = []
na = []
for p in props:
    pid = p["id"]
    c = CHECKS.get(pid)
    if not c:
        na.append({"property_id": pid, "reason": NOT_APPLICABLE.get(pid, "check not built yet in this session (design in DESIGN.md section 4); no claim is made")})
        continue
    checks.append({
        "property_id": pid,
        "quick_cmd": "./check %s --tier quick" % pid,
        "thorough_cmd": "./check %s --tier thorough" % pid,
        "evidence_file": "/verif/evidence/%s.json" % pid,
        "replay_cmd_template": "./check %s --replay {path}" % pid,
        "engine": "harness-" + c["pkg"],
        "level_claimed": {"category": c.get("level", "exploration"), "text": c["level_text"], "design_ref": "DESIGN.md section 4, " + pid},
        "level_note": c["level_note"],
        "technique": c["technique"],
    })
m = {
    "version": 1,
    "setup_cmd": "./setup.sh",
    "hooks": {
        "guard": "verif",
        "enable": "go test -tags verif (the driver builds every harness test binary with -tags verif against /repo's working tree)",
        "baseline_off_cmd": base["cmd"],
        "source_commits": HOOK_COMMITS,
        "add_only": True,
    },
    "engines": [
        {"name": "harness-" + pkg, "path": "/verif/harness/" + pkg,
         "serves_properties": sorted(k for k, c in CHECKS.items() if c["pkg"] == pkg),
         "kind_free_text": "Go test package using pgregory.net/rapid v1.3.0 generators + explicit oracles; built by /verif/check against /repo"}
        for pkg in sorted(set(c["pkg"] for c in CHECKS.values()))
    ],
    "checks": checks,
    "not_applicable": na,
    "notes": "All checks: ./check <ID> --tier quick|thorough; exit 0 held / 1 violation (VIOLATION line) / 2 inconclusive. Known findings: /verif/known_findings.json. Design: /verif/DESIGN.md.",
}
json.dump(m, open(os.path.join(V, "MANIFEST.json"), "w"), indent=1)
print("claimed", len(checks), "not_applicable", len(na))
