#!/usr/bin/env python3
"""tools/kf.py add <property> <id> <open|fixed> <signature> <what> <probe-json> [commit]
   tools/kf.py fix <id> <commit>   -> flips an entry to fixed"""
import json, sys
P = '/verif/known_findings.json'
k = json.load(open(P))
if sys.argv[1] == 'add':
    _, _, prop, fid, status, sig, what, probe = sys.argv[:8]
    commit = sys.argv[8] if len(sys.argv) > 8 else ""
    k = [e for e in k if e['id'] != fid]
    if status == 'fixed':
        what = "fixed: property=%s %s %s" % (prop, commit, what)
    k.append({"property": prop, "id": fid, "status": status, "signature": sig, "what": what, "commit": commit, "probe": json.loads(probe)})
elif sys.argv[1] == 'fix':
    fid, commit = sys.argv[2], sys.argv[3]
    for e in k:
        if e['id'] == fid:
            e['status'] = 'fixed'
            e['commit'] = commit
            w = e['what']
            if w.startswith('fixed: '):
                w = w.split(' ', 3)[3]
            e['what'] = "fixed: property=%s %s %s" % (e['property'], commit, w)
k.sort(key=lambda e: e['id'])
json.dump(k, open(P, 'w'), indent=1)
