#!/bin/bash
# Offline setup: pre-build the harness test binaries into the Go build cache so
# that the first check does not pay for compilation. Needs no network.
set -e
cd "$(dirname "$0")/harness"
export GOFLAGS=-mod=mod GOPROXY=off GOSUMDB=off GOTOOLCHAIN=local
mkdir -p /verif/.scratch/setup
for pkg in $(ls -d */ | tr -d /); do
  if ls $pkg/*_test.go >/dev/null 2>&1; then
    go test -c -tags verif -o /verif/.scratch/setup/$pkg.bin ./$pkg
  fi
done
rm -rf /verif/.scratch/setup
echo setup ok
